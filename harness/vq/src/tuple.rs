//! C12 (tuple-packing half): bytes_to_tuples / tuples_to_bytes is a bijection for every symbol
//! range and every length, including 0 and all remainders modulo the tuple width.

use ragc_core::tuple_packing::{bytes_to_tuples, tuples_to_bytes};
use std::panic::{catch_unwind, AssertUnwindSafe};
use vcommon::{fnv, jnums, jobj, jstr, Args, Report, Rng};

fn check(rep: &mut Report, args: &Args, data: &[u8], case: &str) {
    rep.evaluations += 1;
    let r = catch_unwind(AssertUnwindSafe(|| {
        let t = bytes_to_tuples(data);
        let b = tuples_to_bytes(&t);
        (t, b)
    }));
    let what = match r {
        Err(_) => Some("panic".to_string()),
        Ok((t, b)) => {
            if b != data {
                Some(format!("tuples_to_bytes(bytes_to_tuples(x)) != x (len {} -> {} tuples -> {})", data.len(), t.len(), b.len()))
            } else {
                let marker = *t.last().unwrap_or(&0);
                rep.count(&format!("width_{}", marker >> 4), 1);
                rep.count(&format!("remainder_{}", marker & 0xf), 1);
                None
            }
        }
    };
    if let Some(w) = what {
        rep.violation(
            "C12:tuple-roundtrip",
            jobj(&[
                ("what", jstr(&w)),
                ("workload", jstr("vq tuple")),
                ("seed", args.seed.to_string()),
                ("case", jstr(case)),
                ("bytes", jnums(&data.iter().take(300).collect::<Vec<_>>())),
            ]),
        );
    }
}

fn all_strings(alpha: &[u8], len: usize, f: &mut dyn FnMut(&[u8])) {
    let mut idx = vec![0usize; len];
    let mut s = vec![alpha[0]; len];
    loop {
        f(&s);
        let mut p = len;
        loop {
            if p == 0 {
                return;
            }
            p -= 1;
            idx[p] += 1;
            if idx[p] < alpha.len() {
                s[p] = alpha[idx[p]];
                break;
            }
            idx[p] = 0;
            s[p] = alpha[0];
        }
    }
}

pub fn run(args: &Args, rep: &mut Report) {
    std::panic::set_hook(Box::new(|_| {}));
    let miri = cfg!(miri);
    let t = args.tier_thorough;
    if args.case.as_deref() == Some("direct") {
        let d: Vec<u8> = args.get("bytes").unwrap_or("").split(',').filter_map(|x| x.trim().parse().ok()).collect();
        check(rep, args, &d, "direct");
        return;
    }
    // exhaustive: (alphabet, max length)
    let a4: Vec<u8> = (0..4).collect();
    let a6: Vec<u8> = (0..6).collect();
    let a16: Vec<u8> = (0..16).collect();
    let plan: Vec<(&[u8], usize)> = if miri {
        vec![(&a4, 4), (&a6, 3), (&a16, 1), (&[0, 255], 4)]
    } else if t {
        vec![(&a4, 9), (&a6, 7), (&a16, 5), (&[0, 255], 10), (&[3, 4, 5, 15, 16], 6)]
    } else {
        vec![(&a4, 8), (&a6, 6), (&a16, 4), (&[0, 255], 8), (&[3, 4, 5, 15, 16], 5)]
    };
    let mut n_exh = 0u64;
    let mut idx = 0u64;
    if args.shard == 0 {
        check(rep, args, &[], "empty");
        n_exh += 1;
    }
    for (alpha, maxlen) in plan {
        for len in 1..=maxlen {
            all_strings(alpha, len, &mut |s| {
                idx += 1;
                if args.mine(idx) {
                    n_exh += 1;
                    check(rep, args, s, "exhaustive");
                }
            });
        }
    }
    rep.distinct_by_construction += n_exh;
    rep.count("exhaustive_strings", n_exh);
    // every length 0..70 at max symbol just below / at each width threshold
    for maxsym in [3u8, 4, 5, 6, 15, 16, 255] {
        for len in 0..=(if miri { 24usize } else { 70usize }) {
            let mut rng = Rng::derive(args.seed, 0xC12, (maxsym as u64) << 16 | len as u64);
            if !args.mine(len as u64) {
                continue;
            }
            for rep_i in 0..(if miri { 1 } else { 8 }) {
                let mut d: Vec<u8> = (0..len).map(|_| rng.below(maxsym as u64 + 1) as u8).collect();
                if len > 0 {
                    let p = rng.usize(0, len - 1);
                    d[p] = maxsym; // make sure the maximum is attained
                }
                check(rep, args, &d, &format!("len-sweep:{}:{}:{}", maxsym, len, rep_i));
                rep.nontrivial(fnv(&d) ^ ((maxsym as u64) << 56));
            }
        }
    }
    // random longer strings
    let n = args.get_u64("n", if miri { 4 } else if t { 1_500_000 } else { 10_000 });
    for i in 0..n {
        if !args.mine(i) {
            continue;
        }
        let mut rng = Rng::derive(args.seed, 0xC12, 1_000_000 + i);
        let maxsym = *rng.pick(&[1u8, 3, 4, 5, 6, 15, 16, 30, 255]);
        let len = if miri { rng.usize(0, 40) } else if rng.chance(1, 50) { rng.usize(0, 100_000) } else { rng.usize(0, 400) };
        let d: Vec<u8> = (0..len).map(|_| rng.below(maxsym as u64 + 1) as u8).collect();
        check(rep, args, &d, &format!("rand:{}", i));
        if len > 4 {
            rep.nontrivial(fnv(&d));
        }
    }
    rep.sample(jobj(&[("example_input", jnums(&[0u8, 1, 2, 3, 4])), ("tuples", jnums(&bytes_to_tuples(&[0, 1, 2, 3, 4])))]));
}
