//! C06: concurrent histories of the real MemoryBoundedQueue, checked against a sequential
//! bounded-priority-queue model.
//!
//! Observations come from two places:
//!   * the hook events, emitted by the queue while its mutex is held (= the order in which the
//!     operations took effect), each tagged with the logical thread that caused it;
//!   * the client log: every call and its reply, recorded by the calling thread itself.
//! The k-th effect event of thread t must be the k-th completed operation of thread t with a
//! matching outcome; that ties the item ids (known only to the client) to the linearisation.
//! The linearisation is then replayed against the model.

use ragc_common::verif::{self, ev};
use ragc_core::memory_bounded_queue::{MemoryBoundedQueue, PushError, TryPushError};
use std::cell::Cell;
use std::collections::BTreeMap;
use std::sync::atomic::{AtomicBool, AtomicU64, AtomicUsize, Ordering};
use std::sync::{Arc, Mutex};
use vcommon::{fnv_mix, jarr, jnums, jobj, jstr, Args, Report, Rng};

#[derive(Clone, Debug)]
struct Item {
    prio: i32,
    id: u64,
    size: usize,
}
impl PartialEq for Item {
    fn eq(&self, o: &Self) -> bool {
        self.prio == o.prio
    }
}
impl Eq for Item {}
impl PartialOrd for Item {
    fn partial_cmp(&self, o: &Self) -> Option<std::cmp::Ordering> {
        Some(self.cmp(o))
    }
}
impl Ord for Item {
    fn cmp(&self, o: &Self) -> std::cmp::Ordering {
        self.prio.cmp(&o.prio)
    }
}

#[derive(Clone, Copy, Debug)]
struct Ev {
    kind: u32,
    a: [u64; 4],
    tid: u32,
}

static LOG: Mutex<Vec<Ev>> = Mutex::new(Vec::new());
static CUR_QUEUE: AtomicU64 = AtomicU64::new(0);
thread_local! {
    static TID: Cell<u32> = const { Cell::new(u32::MAX) };
}

fn sink(kind: u32, a: [u64; 4]) {
    if !(1..=11).contains(&kind) || a[3] != CUR_QUEUE.load(Ordering::Relaxed) {
        return;
    }
    let tid = TID.with(|t| t.get());
    // Never blocks on anything a queue user can hold: LOG is only taken here and by the
    // checker thread for short copies.
    LOG.lock().unwrap().push(Ev { kind, a, tid });
}

#[derive(Clone, Debug)]
enum Op {
    Push(Item),
    TryPush(Item),
    Pull,
    TryPull,
    /// pull until end of stream
    Drain,
    Pause(u32),
    /// a consumer that stalls for this many milliseconds (a slow disk, a long compression job)
    Sleep(u32),
}

#[derive(Clone, Debug)]
enum Done {
    PushOk(Item),
    PushClosed(Item),
    TryPushOk(Item),
    TryPushClosed(Item),
    TryPushWouldBlock(Item),
    PullSome(Item),
    PullNone,
    TryPullSome(Item),
    TryPullNone,
}

struct History {
    cap: usize,
    programs: Vec<Vec<Op>>, // per logical thread
    producers: usize,
    close_after_admits: Option<usize>, // close early once this many admits were seen
    all_fit: bool,
    pause_scale: u32,
    /// keep the queue open after the producers have finished until the consumers have emptied
    /// it: a lost wake-up then shows as consumers parked in pull while items are queued
    quiesce_before_close: bool,
    stall_ms: u32,
}

fn gen_history(rng: &mut Rng, small: bool) -> History {
    let max_threads = if small { 3 } else { 8 };
    let producers = rng.usize(1, if small { 2 } else { max_threads });
    let consumers = rng.usize(1, max_threads);
    let cap = *rng.pick(&[0usize, 1, 2, 3, 4, 8, 10, 64, 1000, 1 << 30]);
    let oversize = rng.chance(1, 4);
    let nprio = rng.usize(1, 4) as i32;
    let max_items = if small { 3 } else { 24 };
    let mut next_id = 1u64;
    let mut all_fit = true;
    let mut programs = Vec::new();
    let mut total_items = 0usize;
    for _ in 0..producers {
        let n = rng.usize(1, max_items);
        let mut prog = Vec::new();
        for _ in 0..n {
            let size = match rng.below(6) {
                0 => 0,
                1 => 1,
                2 => cap / 2,
                3 => cap,
                4 if oversize => cap.saturating_add(1),
                _ => rng.usize(0, cap.min(16)),
            };
            if size > cap {
                all_fit = false;
            }
            let it = Item {
                prio: rng.below(nprio as u64) as i32,
                id: next_id,
                size,
            };
            next_id += 1;
            total_items += 1;
            if rng.chance(1, 5) {
                prog.push(Op::TryPush(it));
            } else {
                prog.push(Op::Push(it));
            }
            if rng.chance(1, 4) {
                prog.push(Op::Pause(rng.below(4) as u32));
            }
        }
        programs.push(prog);
    }
    // consumer 0 always drains to end of stream, so producers cannot be starved of space
    for c in 0..consumers {
        let mut prog = Vec::new();
        if c == 0 || rng.chance(1, 2) {
            if rng.chance(1, 3) {
                prog.push(Op::Pause(rng.below(4) as u32));
            }
            prog.push(Op::Drain);
        } else {
            let n = rng.usize(1, max_items);
            for _ in 0..n {
                if rng.chance(1, 3) {
                    prog.push(Op::TryPull);
                } else {
                    prog.push(Op::Pull);
                }
                if rng.chance(1, 4) {
                    prog.push(Op::Pause(rng.below(4) as u32));
                }
            }
        }
        programs.push(prog);
    }
    let close_after_admits = if rng.chance(1, 3) {
        Some(rng.usize(0, total_items))
    } else {
        None
    };
    History {
        cap,
        programs,
        producers,
        close_after_admits,
        all_fit,
        pause_scale: if small { 0 } else { rng.below(3) as u32 },
        quiesce_before_close: close_after_admits.is_none() && rng.chance(1, 2),
        stall_ms: 0,
    }
}

/// Several consumers, each with a fixed number of pulls, are parked before a burst of pushes
/// arrives; pulls and pushes balance, nobody drains, the queue stays open until it is empty.
/// Every accepted item has to reach one of the parked consumers: a push that fails to wake one
/// leaves items queued and consumers parked.
fn gen_burst_history(rng: &mut Rng, small: bool) -> History {
    let consumers = if small { rng.usize(2, 3) } else { rng.usize(2, 7) };
    let per_consumer = if small { 1 } else { rng.usize(1, 3) };
    let total = consumers * per_consumer;
    let producers = if small { 1 } else { rng.usize(1, 2).min(total) };
    let style = rng.below(3); // 0 = try_push only, 1 = push only, 2 = mixed
    let mut programs = Vec::new();
    let mut next_id = 1u64;
    for p in 0..producers {
        let n = total / producers + if p < total % producers { 1 } else { 0 };
        let mut prog = vec![if small { Op::Pause(3) } else { Op::Sleep(rng.usize(2, 6) as u32) }];
        for _ in 0..n {
            let it = Item { prio: rng.below(3) as i32, id: next_id, size: rng.usize(0, 8) };
            next_id += 1;
            let use_try = style == 0 || (style == 2 && rng.chance(1, 2));
            prog.push(if use_try { Op::TryPush(it) } else { Op::Push(it) });
        }
        programs.push(prog);
    }
    for _ in 0..consumers {
        programs.push((0..per_consumer).map(|_| Op::Pull).collect());
    }
    History { cap: 1 << 30, programs, producers, close_after_admits: None, all_fit: true, pause_scale: 0, quiesce_before_close: true, stall_ms: 0 }
}

/// A consumer that stalls for `stall_ms` while a producer is blocked on a full queue whose items
/// all fit: nothing may be admitted beyond the capacity however long the stall lasts.
fn gen_stall_history(rng: &mut Rng, stall_ms: u32) -> History {
    let cap = *rng.pick(&[10usize, 64, 1000]);
    let mut programs = Vec::new();
    let producers = rng.usize(1, 2);
    let mut next_id = 1u64;
    for _ in 0..producers {
        let mut prog = Vec::new();
        for _ in 0..rng.usize(3, 6) {
            let size = *rng.pick(&[cap / 2 + 1, cap / 2 + 1, cap, cap / 3 + 1]);
            prog.push(Op::Push(Item { prio: rng.below(3) as i32, id: next_id, size }));
            next_id += 1;
        }
        programs.push(prog);
    }
    programs.push(vec![Op::Sleep(stall_ms), Op::Pull, Op::Sleep(stall_ms / 4), Op::Drain]);
    if rng.chance(1, 2) {
        programs.push(vec![Op::Sleep(stall_ms + stall_ms / 8), Op::Drain]);
    }
    History { cap, programs, producers, close_after_admits: None, all_fit: true, pause_scale: 0, quiesce_before_close: rng.chance(1, 2), stall_ms }
}

fn pause(n: u32, scale: u32) {
    match scale {
        0 => std::thread::yield_now(),
        1 => {
            for _ in 0..(n * 200) {
                std::hint::spin_loop();
            }
            std::thread::yield_now();
        }
        _ => std::thread::sleep(std::time::Duration::from_micros(20 * n as u64)),
    }
}

struct Outcome {
    client: Vec<Vec<Done>>,
    post_close: Vec<Done>, // performed by the main thread (tid = nthreads) after close
    log: Vec<Ev>,
    final_snapshot: (usize, usize, bool),
    stuck: Option<String>,
    /// recoverable (close releases everybody), so the history is still completed and checked
    lost_wakeup: Option<String>,
}

fn admits_in_log() -> usize {
    LOG.lock().unwrap().iter().filter(|e| e.kind == ev::Q_ADMIT).count()
}

fn run_history(h: &History, wall_limit_ms: u64) -> Outcome {
    LOG.lock().unwrap().clear();
    let q: MemoryBoundedQueue<Item> = MemoryBoundedQueue::new(h.cap);
    CUR_QUEUE.store(q.verif_id(), Ordering::SeqCst);
    let n = h.programs.len();
    let done = Arc::new(AtomicUsize::new(0));
    let producers_done = Arc::new(AtomicUsize::new(0));
    let results: Arc<Vec<Mutex<Vec<Done>>>> = Arc::new((0..n).map(|_| Mutex::new(Vec::new())).collect());
    let abandon = Arc::new(AtomicBool::new(false));
    let mut handles = Vec::new();
    for (t, prog) in h.programs.iter().cloned().enumerate() {
        let q = q.clone();
        let done = Arc::clone(&done);
        let producers_done = Arc::clone(&producers_done);
        let results = Arc::clone(&results);
        let is_producer = t < h.producers;
        let scale = h.pause_scale;
        handles.push(std::thread::spawn(move || {
            TID.with(|x| x.set(t as u32));
            let mut out = Vec::new();
            for op in prog {
                match op {
                    Op::Push(it) => {
                        let r = q.push(it.clone(), it.size);
                        out.push(match r {
                            Ok(()) => Done::PushOk(it),
                            Err(PushError::Closed) => Done::PushClosed(it),
                        });
                    }
                    Op::TryPush(it) => {
                        let r = q.try_push(it.clone(), it.size);
                        out.push(match r {
                            Ok(()) => Done::TryPushOk(it),
                            Err(TryPushError::Closed) => Done::TryPushClosed(it),
                            Err(TryPushError::WouldBlock) => Done::TryPushWouldBlock(it),
                        });
                    }
                    Op::Pull => out.push(match q.pull() {
                        Some(it) => Done::PullSome(it),
                        None => Done::PullNone,
                    }),
                    Op::TryPull => out.push(match q.try_pull() {
                        Some(it) => Done::TryPullSome(it),
                        None => Done::TryPullNone,
                    }),
                    Op::Drain => loop {
                        match q.pull() {
                            Some(it) => out.push(Done::PullSome(it)),
                            None => {
                                out.push(Done::PullNone);
                                break;
                            }
                        }
                    },
                    Op::Pause(k) => pause(k, scale),
                    Op::Sleep(ms) => std::thread::sleep(std::time::Duration::from_millis(ms as u64)),
                }
                // publish progressively so a stuck history can still be examined
                *results[t].lock().unwrap() = out.clone();
            }
            if is_producer {
                producers_done.fetch_add(1, Ordering::SeqCst);
            }
            done.fetch_add(1, Ordering::SeqCst);
        }));
    }
    TID.with(|x| x.set(n as u32));
    // main thread: decide when to close
    let start = std::time::Instant::now();
    let mut stuck = None;
    let mut lost_wakeup = None;
    {
        // While the producers work: a producer parked in push although its item fits (or the
        // queue is empty), with no new event and every thread asleep in the kernel, missed the
        // wake-up of the pull that made room. close() releases it, so the history continues.
        let mut last_len = LOG.lock().unwrap().len();
        let mut last_change = std::time::Instant::now();
        let mut quiet_looks = 0u64;
        loop {
            let pd = producers_done.load(Ordering::SeqCst);
            let early = h.close_after_admits.map(|m| admits_in_log() >= m).unwrap_or(false);
            if pd == h.producers || early {
                break;
            }
            let l = LOG.lock().unwrap().len();
            if l != last_len {
                last_len = l;
                last_change = std::time::Instant::now();
                quiet_looks = 0;
            } else {
                quiet_looks += 1;
            }
            let stable = if cfg!(miri) {
                quiet_looks > 4000
            } else {
                last_change.elapsed().as_millis() > 1200 && quiet_looks > 100 && others_asleep_twice()
            };
            if stable && LOG.lock().unwrap().len() == last_len {
                let log = LOG.lock().unwrap().clone();
                let mut last: BTreeMap<u32, (u32, u64)> = BTreeMap::new();
                for e in &log {
                    last.insert(e.tid, (e.kind, e.a[0]));
                }
                let snap = q.verif_snapshot();
                let parked: Vec<(u32, u64)> = last
                    .iter()
                    .filter(|(_, &(k, size))| k == ev::Q_WAIT_FULL && (snap.0 == 0 || snap.1 as u64 + size <= h.cap as u64))
                    .map(|(&t, &(_, size))| (t, size))
                    .collect();
                if !parked.is_empty() && LOG.lock().unwrap().len() == last_len {
                    lost_wakeup = Some(format!(
                        "(thread, item size) {:?} parked in push although the queue holds {} items / {} bytes of capacity {}, the queue is open and no thread is runnable",
                        parked, snap.0, snap.1, h.cap
                    ));
                    break;
                }
                quiet_looks = 0;
                last_change = std::time::Instant::now();
            }
            if start.elapsed().as_millis() as u64 > wall_limit_ms {
                stuck = Some("producers did not finish before the wall-clock limit (before close)".to_string());
                break;
            }
            std::thread::yield_now();
        }
    }
    if stuck.is_none() && lost_wakeup.is_none() && h.quiesce_before_close {
        // Consumer 0 pulls until end of stream, so with correct wake-ups the queue becomes
        // empty. State predicate for a lost wake-up: items queued, a thread parked in pull, no
        // new event, and (natively) every other thread asleep in the kernel at two looks - a
        // thread that was notified but has not run yet is runnable, not asleep.
        let mut last_len = LOG.lock().unwrap().len();
        let mut last_change = std::time::Instant::now();
        let mut quiet_looks = 0u64;
        loop {
            if q.verif_snapshot().0 == 0 {
                break;
            }
            let l = LOG.lock().unwrap().len();
            if l != last_len {
                last_len = l;
                last_change = std::time::Instant::now();
                quiet_looks = 0;
            } else {
                quiet_looks += 1;
            }
            let stable = if cfg!(miri) {
                quiet_looks > 4000
            } else {
                last_change.elapsed().as_millis() > 1200 && quiet_looks > 100 && others_asleep_twice()
            };
            if stable && LOG.lock().unwrap().len() == last_len {
                let log = LOG.lock().unwrap().clone();
                let mut last: BTreeMap<u32, u32> = BTreeMap::new();
                for e in &log {
                    last.insert(e.tid, e.kind);
                }
                let waiting: Vec<u32> = last.iter().filter(|(_, &k)| k == ev::Q_WAIT_EMPTY).map(|(&t, _)| t).collect();
                let snap = q.verif_snapshot();
                if !waiting.is_empty() && snap.0 > 0 {
                    lost_wakeup = Some(format!(
                        "threads {:?} are parked in pull although {} items ({} bytes) are queued, the queue is open and no thread is runnable",
                        waiting, snap.0, snap.1
                    ));
                }
                break;
            }
            if start.elapsed().as_millis() as u64 > wall_limit_ms + h.stall_ms as u64 * 3 {
                break;
            }
            std::thread::yield_now();
        }
    }
    let mut post_close = Vec::new();
    if stuck.is_none() {
        q.close();
        // after close: a push must be refused, remaining items are handed out, then end of stream
        let it = Item { prio: 0, id: u64::MAX, size: 0 };
        post_close.push(match q.push(it.clone(), 0) {
            Ok(()) => Done::PushOk(it),
            Err(PushError::Closed) => Done::PushClosed(it),
        });
        let t0 = std::time::Instant::now();
        let mut last_len = 0usize;
        let mut last_change = std::time::Instant::now();
        while done.load(Ordering::SeqCst) < n {
            let l = LOG.lock().unwrap().len();
            if l != last_len {
                last_len = l;
                last_change = std::time::Instant::now();
            }
            // State predicate: after close no queue operation can block. A thread whose last
            // event is WAIT_* and that has produced nothing for a long stable interval, while
            // no other event arrives, stayed blocked.
            if last_change.elapsed().as_millis() as u64 > wall_limit_ms.min(5000)
                && t0.elapsed().as_millis() as u64 > wall_limit_ms.min(5000)
            {
                let log = LOG.lock().unwrap().clone();
                let mut last: BTreeMap<u32, u32> = BTreeMap::new();
                for e in &log {
                    last.insert(e.tid, e.kind);
                }
                let waiting: Vec<u32> = last
                    .iter()
                    .filter(|(_, &k)| k == ev::Q_WAIT_FULL || k == ev::Q_WAIT_EMPTY)
                    .map(|(&t, _)| t)
                    .collect();
                if !waiting.is_empty() {
                    stuck = Some(format!("threads {:?} still blocked in a queue wait after close", waiting));
                } else {
                    stuck = Some("threads did not finish and none is in a queue wait (harness problem?)".to_string());
                }
                break;
            }
            std::thread::yield_now();
        }
        if stuck.is_none() {
            // everything else has finished; drain what is left from the main thread
            loop {
                match q.pull() {
                    Some(it) => post_close.push(Done::PullSome(it)),
                    None => {
                        post_close.push(Done::PullNone);
                        break;
                    }
                }
            }
        }
    }
    if stuck.is_none() {
        for hd in handles {
            let _ = hd.join();
        }
    } else {
        abandon.store(true, Ordering::SeqCst);
    }
    let client: Vec<Vec<Done>> = results.iter().map(|m| m.lock().unwrap().clone()).collect();
    let log = LOG.lock().unwrap().clone();
    Outcome {
        client,
        post_close,
        log,
        final_snapshot: q.verif_snapshot(),
        stuck,
        lost_wakeup,
    }
}

/// Every thread of this process except the caller is asleep in the kernel (state S), at two looks
/// 150 ms apart. Under Miri there is no /proc: the caller uses a yield count instead.
fn others_asleep_twice() -> bool {
    fn look() -> bool {
        let me = std::fs::read_link("/proc/thread-self").ok().and_then(|p| p.file_name().map(|f| f.to_string_lossy().to_string()));
        let Ok(rd) = std::fs::read_dir("/proc/self/task") else { return false };
        for ent in rd.flatten() {
            let name = ent.file_name().to_string_lossy().to_string();
            if Some(&name) == me.as_ref() {
                continue;
            }
            let Ok(stat) = std::fs::read_to_string(ent.path().join("stat")) else { continue };
            let state = stat.rsplit(')').next().and_then(|r| r.trim_start().chars().next()).unwrap_or('R');
            if state != 'S' {
                return false;
            }
        }
        true
    }
    if !look() {
        return false;
    }
    std::thread::sleep(std::time::Duration::from_millis(150));
    look()
}

fn is_effect(kind: u32) -> bool {
    matches!(
        kind,
        ev::Q_ADMIT | ev::Q_TAKE | ev::Q_REFUSE | ev::Q_EOS | ev::Q_WOULD_BLOCK | ev::Q_TRY_EMPTY
    )
}

struct Checked {
    blocked_full: u64,
    blocked_empty: u64,
    max_waiters: u64,
    signature: u64,
    events: u64,
    takes: u64,
    ties_seen: u64,
}

/// Replays the linearisation against the sequential model. Err(description) = violation.
fn check(h: &History, o: &Outcome) -> Result<Checked, String> {
    if let Some(s) = &o.stuck {
        if s.contains("still blocked in a queue wait after close") {
            return Err(format!("no-thread-stays-blocked: {}", s));
        }
    }
    if let Some(s) = &o.lost_wakeup {
        return Err(format!("lost-wake-up: {}", s));
    }
    let n = h.programs.len();
    // 1. bind client operations to effect events, per thread
    let mut per_thread_effects: Vec<Vec<usize>> = vec![Vec::new(); n + 1];
    for (i, e) in o.log.iter().enumerate() {
        if is_effect(e.kind) {
            if (e.tid as usize) > n {
                return Err(format!("event from unknown thread {}", e.tid));
            }
            per_thread_effects[e.tid as usize].push(i);
        }
    }
    let mut item_of_event: BTreeMap<usize, Item> = BTreeMap::new();
    let mut all_client: Vec<(usize, &Vec<Done>)> = o.client.iter().enumerate().collect();
    all_client.push((n, &o.post_close));
    for (t, ops) in all_client {
        let effs = &per_thread_effects[t];
        if o.stuck.is_none() && effs.len() != ops.len() {
            return Err(format!(
                "thread {}: {} completed operations but {} effect events",
                t,
                ops.len(),
                effs.len()
            ));
        }
        for (k, d) in ops.iter().enumerate() {
            let Some(&ei) = effs.get(k) else { break };
            let e = &o.log[ei];
            let (want_kind, item): (u32, Option<&Item>) = match d {
                Done::PushOk(it) | Done::TryPushOk(it) => (ev::Q_ADMIT, Some(it)),
                Done::PushClosed(it) | Done::TryPushClosed(it) => (ev::Q_REFUSE, Some(it)),
                Done::TryPushWouldBlock(it) => (ev::Q_WOULD_BLOCK, Some(it)),
                Done::PullSome(it) | Done::TryPullSome(it) => (ev::Q_TAKE, Some(it)),
                Done::PullNone => (ev::Q_EOS, None),
                Done::TryPullNone => (ev::Q_TRY_EMPTY, None),
            };
            if e.kind != want_kind {
                return Err(format!(
                    "thread {} op {}: client saw {:?} but the queue recorded event kind {}",
                    t, k, d, e.kind
                ));
            }
            if let Some(it) = item {
                if e.a[0] != it.size as u64 {
                    return Err(format!(
                        "thread {} op {}: client item size {} but event size {}",
                        t, k, it.size, e.a[0]
                    ));
                }
                item_of_event.insert(ei, it.clone());
            }
        }
    }
    // 2. replay against the model
    let mut model: BTreeMap<u64, Item> = BTreeMap::new(); // id -> item currently queued
    let mut ever_admitted: BTreeMap<u64, u32> = BTreeMap::new();
    let mut taken: BTreeMap<u64, u32> = BTreeMap::new();
    let mut bytes: u64 = 0;
    let mut closed = false;
    let mut waiting_full: BTreeMap<u32, u64> = BTreeMap::new();
    let mut waiting_empty: BTreeMap<u32, u64> = BTreeMap::new();
    let mut c = Checked {
        blocked_full: 0,
        blocked_empty: 0,
        max_waiters: 0,
        signature: 0xcbf2_9ce4_8422_2325,
        events: o.log.len() as u64,
        takes: 0,
        ties_seen: 0,
    };
    for (i, e) in o.log.iter().enumerate() {
        c.signature = fnv_mix(c.signature, ((e.kind as u64) << 32) | e.tid as u64);
        match e.kind {
            ev::Q_ADMIT => {
                let Some(it) = item_of_event.get(&i) else { continue };
                if closed {
                    return Err(format!("event {}: item {} admitted after close", i, it.id));
                }
                if ever_admitted.insert(it.id, 1).is_some() {
                    return Err(format!("event {}: item {} admitted twice", i, it.id));
                }
                model.insert(it.id, it.clone());
                bytes += it.size as u64;
                if e.a[1] != model.len() as u64 || e.a[2] != bytes {
                    return Err(format!(
                        "event {}: after admit queue reports len={} bytes={} but model has len={} bytes={}",
                        i, e.a[1], e.a[2], model.len(), bytes
                    ));
                }
                if h.all_fit && bytes > h.cap as u64 {
                    return Err(format!(
                        "event {}: {} bytes queued exceed the capacity {} although every item fits",
                        i, bytes, h.cap
                    ));
                }
            }
            ev::Q_TAKE => {
                let Some(it) = item_of_event.get(&i) else { continue };
                c.takes += 1;
                if !model.contains_key(&it.id) {
                    if taken.contains_key(&it.id) {
                        return Err(format!("event {}: item {} returned twice", i, it.id));
                    }
                    return Err(format!("event {}: item {} returned but never accepted", i, it.id));
                }
                let maxp = model.values().map(|m| m.prio).max().unwrap();
                if it.prio < maxp {
                    return Err(format!(
                        "event {}: item {} with priority {} returned while an item with priority {} was queued",
                        i, it.id, it.prio, maxp
                    ));
                }
                if model.values().filter(|m| m.prio == maxp).count() > 1 {
                    c.ties_seen += 1;
                }
                model.remove(&it.id);
                taken.insert(it.id, 1);
                bytes -= it.size as u64;
                if e.a[1] != model.len() as u64 || e.a[2] != bytes {
                    return Err(format!(
                        "event {}: after take queue reports len={} bytes={} but model has len={} bytes={}",
                        i, e.a[1], e.a[2], model.len(), bytes
                    ));
                }
            }
            ev::Q_CLOSE => closed = true,
            ev::Q_REFUSE => {
                if !closed {
                    return Err(format!("event {}: push refused as closed before close", i));
                }
            }
            ev::Q_EOS => {
                if !closed || !model.is_empty() {
                    return Err(format!(
                        "event {}: end of stream reported with closed={} and {} items queued",
                        i,
                        closed,
                        model.len()
                    ));
                }
            }
            ev::Q_WAIT_FULL => {
                c.blocked_full += 1;
                waiting_full.insert(e.tid, e.a[0]);
            }
            ev::Q_WAKE_FULL => {
                waiting_full.remove(&e.tid);
            }
            ev::Q_WAIT_EMPTY => {
                c.blocked_empty += 1;
                waiting_empty.insert(e.tid, 0);
            }
            ev::Q_WAKE_EMPTY => {
                waiting_empty.remove(&e.tid);
            }
            _ => {}
        }
        c.max_waiters = c.max_waiters.max((waiting_full.len() + waiting_empty.len()) as u64);
    }
    if o.stuck.is_none() {
        // 3. end state
        if !waiting_full.is_empty() || !waiting_empty.is_empty() {
            return Err(format!(
                "threads {:?}/{:?} are in a wait state at the end of the history",
                waiting_full.keys().collect::<Vec<_>>(),
                waiting_empty.keys().collect::<Vec<_>>()
            ));
        }
        if !model.is_empty() {
            return Err(format!(
                "{} accepted items were never returned although the queue was drained to end of stream",
                model.len()
            ));
        }
        if o.final_snapshot.0 != 0 || o.final_snapshot.1 != 0 || !o.final_snapshot.2 {
            return Err(format!("final queue state {:?}, expected (0, 0, true)", o.final_snapshot));
        }
        // every successful client push was admitted exactly once and returned exactly once
        for ops in o.client.iter() {
            for d in ops {
                if let Done::PushOk(it) | Done::TryPushOk(it) = d {
                    if taken.get(&it.id) != Some(&1) {
                        return Err(format!("accepted item {} was not returned exactly once", it.id));
                    }
                }
            }
        }
        match o.post_close.first() {
            Some(Done::PushClosed(_)) => {}
            other => return Err(format!("push after close was not refused: {:?}", other)),
        }
    }
    Ok(c)
}

fn describe(h: &History) -> String {
    let progs: Vec<String> = h
        .programs
        .iter()
        .map(|p| {
            let ops: Vec<String> = p
                .iter()
                .map(|op| match op {
                    Op::Push(i) => format!("push(id={},prio={},size={})", i.id, i.prio, i.size),
                    Op::TryPush(i) => format!("try_push(id={},prio={},size={})", i.id, i.prio, i.size),
                    Op::Pull => "pull".to_string(),
                    Op::TryPull => "try_pull".to_string(),
                    Op::Drain => "pull*".to_string(),
                    Op::Pause(k) => format!("pause{}", k),
                    Op::Sleep(ms) => format!("sleep{}ms", ms),
                })
                .collect();
            jstr(&ops.join(" "))
        })
        .collect();
    jobj(&[
        ("capacity", h.cap.to_string()),
        ("producers", h.producers.to_string()),
        ("threads", jarr(&progs)),
        (
            "close_after_admits",
            h.close_after_admits.map(|x| x.to_string()).unwrap_or("null".into()),
        ),
        ("kept_open_until_empty", h.quiesce_before_close.to_string()),
    ])
}

pub fn run(args: &Args, rep: &mut Report) {
    verif::set_sink(Some(sink));
    let miri = cfg!(miri);
    let small = miri || args.get("small") == Some("1");
    let total: u64 = args.get_u64("n", if args.tier_thorough { 60_000 } else { 400 });
    let only: Option<u64> = args.case.as_ref().and_then(|c| c.parse().ok());
    let wall_limit = args.get_u64("wall_ms", 20_000);
    let mut signatures = std::collections::HashSet::new();
    for i in 0..total {
        if !args.mine(i) {
            continue;
        }
        if let Some(c) = only {
            if c != i {
                continue;
            }
        }
        let mut rng = Rng::derive(args.seed, 0xC06, i);
        let stall_ms: u32 = if small {
            0
        } else if args.tier_thorough && i % 4000 == 57 {
            11_000
        } else if i % 50 == 7 {
            2_600
        } else {
            0
        };
        let burst = i % 8 == 3;
        let h = if stall_ms > 0 {
            gen_stall_history(&mut rng, stall_ms)
        } else if burst {
            gen_burst_history(&mut rng, small)
        } else {
            gen_history(&mut rng, small)
        };
        let o = run_history(&h, wall_limit + 8 * stall_ms as u64);
        rep.evaluations += 1;
        if let Some(s) = &o.stuck {
            if !s.contains("still blocked in a queue wait after close") {
                rep.inconclusive(format!("history {}: {}", i, s));
                // threads of this history may still be alive; stop this shard
                rep.notes.push("shard stopped after an unfinished history".to_string());
                return;
            }
        }
        match check(&h, &o) {
            Ok(c) => {
                rep.count("events", c.events);
                rep.count("takes", c.takes);
                rep.count("producer_blocked_on_full", c.blocked_full);
                rep.count("consumer_blocked_on_empty", c.blocked_empty);
                rep.count("takes_with_priority_ties", c.ties_seen);
                rep.max("max_simultaneous_waiters", c.max_waiters);
                rep.max("max_threads", h.programs.len() as u64 + 1);
                if !h.all_fit {
                    rep.count("histories_with_oversized_items", 1);
                }
                if h.close_after_admits.is_some() {
                    rep.count("histories_closed_while_producers_active", 1);
                }
                if h.quiesce_before_close {
                    rep.count("histories_kept_open_until_the_consumers_emptied_the_queue", 1);
                }
                if burst {
                    rep.count("histories_with_a_burst_of_pushes_onto_parked_consumers", 1);
                }
                if h.stall_ms > 0 {
                    rep.count("histories_with_a_consumer_stalling_for_seconds_while_a_producer_is_blocked", 1);
                    rep.max("longest_consumer_stall_ms", h.stall_ms as u64);
                }
                if signatures.insert(c.signature) && (c.blocked_full + c.blocked_empty > 0 || h.programs.len() > 2) {
                    rep.nontrivial(c.signature);
                }
                if rep.samples.len() < 3 {
                    let evs: Vec<String> = o
                        .log
                        .iter()
                        .take(40)
                        .map(|e| format!("[{},{},{}]", e.kind, e.tid, e.a[0]))
                        .collect();
                    rep.sample(jobj(&[
                        ("history", describe(&h)),
                        ("first_events_kind_thread_size", jarr(&evs)),
                    ]));
                }
            }
            Err(msg) => {
                let evs: Vec<String> = o
                    .log
                    .iter()
                    .map(|e| jnums(&[e.kind as u64, e.tid as u64, e.a[0], e.a[1], e.a[2]]))
                    .collect();
                rep.violation(
                    &format!("C06:{}", msg.split(':').next().unwrap_or("")),
                    jobj(&[
                        ("what", jstr(&msg)),
                        ("workload", jstr("vq queue")),
                        ("seed", args.seed.to_string()),
                        ("case", i.to_string()),
                        ("small", (small as u8).to_string()),
                        ("history", describe(&h)),
                        ("events_kind_thread_size_len_bytes", jarr(&evs)),
                    ]),
                );
                if o.stuck.is_some() {
                    rep.notes.push("shard stopped after a stuck history".to_string());
                    return;
                }
            }
        }
    }
    rep.count("distinct_linearisations", signatures.len() as u64);
}
