//! C13: the archive container returns exactly what was stored, for any flushed-and-closed
//! history of registrations and immediate / buffered part additions.

use ragc_common::Archive;
use std::collections::BTreeMap;
use std::panic::{catch_unwind, AssertUnwindSafe};
use vcommon::{fnv, jarr, jobj, jstr, Args, Report, Rng};

#[derive(Clone, Debug)]
enum Op {
    Register(String),
    Add(usize, Vec<u8>, u64),
    AddBuffered(usize, Vec<u8>, u64),
    Flush,
    SetRaw(usize, u64),
}

const BOUNDARIES: &[u64] = &[
    0, 1, 0xff, 0x100, 0xffff, 0x1_0000, 0xff_ffff, 0x100_0000, 0xffff_ffff, 0x1_0000_0000, 0xff_ffff_ffff, 0x100_0000_0000,
    0xffff_ffff_ffff, 0x1_0000_0000_0000, 0xff_ffff_ffff_ffff, 0x100_0000_0000_0000, u64::MAX - 1, u64::MAX,
];

fn rand_meta(rng: &mut Rng) -> u64 {
    match rng.below(3) {
        0 => *rng.pick(BOUNDARIES),
        1 => rng.below(300),
        _ => rng.next() >> rng.below(64),
    }
}

fn rand_name(rng: &mut Rng) -> String {
    match rng.below(6) {
        0 => format!("x{}r", rng.below(40)),
        1 => format!("x{}d", rng.below(40)),
        2 => (*rng.pick(&["params", "collection-samples", "collection-contigs", "collection-details", "file_type_info", "splitters"])).to_string(),
        _ => {
            let l = rng.usize(1, 30);
            (0..l).map(|_| rng.range(0x20, 0x7e) as u8 as char).collect()
        }
    }
}

fn rand_data(rng: &mut Rng, miri: bool) -> Vec<u8> {
    let len = match rng.below(10) {
        0 | 1 => 0,
        2 => 1,
        3 if !miri => rng.usize(1000, 65_536),
        _ => rng.usize(1, if miri { 20 } else { 300 }),
    };
    let x = rng.next();
    (0..len).map(|i| (x.wrapping_mul(i as u64 + 1) >> 13) as u8).collect()
}

fn gen_history(rng: &mut Rng, miri: bool) -> Vec<Op> {
    let n = rng.usize(1, if miri { 12 } else { 60 });
    let mut ops = Vec::new();
    let mut names: Vec<String> = Vec::new();
    if rng.chance(1, 5) {
        // bulk: many parts buffered for a few streams, in no particular stream order, before one
        // flush (what the compressor does at the end of a big round)
        let ns = rng.usize(2, 6);
        for _ in 0..ns {
            let nm = rand_name(rng);
            if !names.contains(&nm) {
                names.push(nm.clone());
            }
            ops.push(Op::Register(nm));
        }
        let nparts = rng.usize(10, if miri { 30 } else { 200 });
        for i in 0..nparts {
            let s = rng.usize(0, names.len() - 1);
            // small distinguishable payloads
            let d: Vec<u8> = if rng.chance(1, 10) { Vec::new() } else { vec![(i % 251) as u8, (i / 251) as u8, rng.below(256) as u8] };
            if rng.chance(1, 25) {
                ops.push(Op::Add(s, d, rand_meta(rng)));
            } else {
                ops.push(Op::AddBuffered(s, d, i as u64));
            }
            if rng.chance(1, 120) {
                ops.push(Op::Flush);
            }
        }
        ops.push(Op::Flush);
        return ops;
    }
    for _ in 0..n {
        let r = rng.below(10);
        if names.is_empty() || r == 0 {
            let nm = if !names.is_empty() && rng.chance(1, 3) { rng.pick(&names).clone() } else { rand_name(rng) };
            if !names.contains(&nm) {
                names.push(nm.clone());
            }
            ops.push(Op::Register(nm));
        } else if r <= 3 {
            ops.push(Op::Add(rng.usize(0, names.len() - 1), rand_data(rng, miri), rand_meta(rng)));
        } else if r <= 7 {
            ops.push(Op::AddBuffered(rng.usize(0, names.len() - 1), rand_data(rng, miri), rand_meta(rng)));
        } else if r == 8 {
            ops.push(Op::Flush);
        } else {
            ops.push(Op::SetRaw(rng.usize(0, names.len() - 1), rand_meta(rng)));
        }
    }
    ops.push(Op::Flush); // precondition of the property: flushed before close
    ops
}

#[derive(Default, Clone)]
struct Model {
    names: Vec<String>,
    parts: Vec<Vec<(Vec<u8>, u64)>>,
    raw: Vec<u64>,
}

fn run_model(ops: &[Op]) -> Model {
    let mut m = Model::default();
    let mut buffered: BTreeMap<usize, Vec<(Vec<u8>, u64)>> = BTreeMap::new();
    for op in ops {
        match op {
            Op::Register(n) => {
                if !m.names.contains(n) {
                    m.names.push(n.clone());
                    m.parts.push(Vec::new());
                    m.raw.push(0);
                }
            }
            Op::Add(s, d, meta) => m.parts[*s].push((d.clone(), *meta)),
            Op::AddBuffered(s, d, meta) => buffered.entry(*s).or_default().push((d.clone(), *meta)),
            Op::Flush => {
                for (s, v) in std::mem::take(&mut buffered) {
                    m.parts[s].extend(v);
                }
            }
            Op::SetRaw(s, r) => m.raw[*s] = *r,
        }
    }
    m
}

fn run_real(ops: &[Op], path: &str, rng: &mut Rng) -> Result<(Model, u64), String> {
    let mut ids: BTreeMap<String, usize> = BTreeMap::new();
    let mut order: Vec<String> = Vec::new();
    {
        let mut a = Archive::new_writer();
        a.open(path).map_err(|e| format!("error: open for writing: {e}"))?;
        for op in ops {
            match op {
                Op::Register(n) => {
                    let id = a.register_stream(n);
                    match ids.get(n) {
                        Some(&old) if old != id => {
                            return Err(format!("register: registering {:?} again returned id {} instead of {}", n, id, old))
                        }
                        Some(_) => {}
                        None => {
                            if id != order.len() {
                                return Err(format!("register: new stream {:?} got id {} (expected {})", n, id, order.len()));
                            }
                            ids.insert(n.clone(), id);
                            order.push(n.clone());
                        }
                    }
                }
                Op::Add(s, d, meta) => a.add_part(*s, d, *meta).map_err(|e| format!("error: add_part: {e}"))?,
                Op::AddBuffered(s, d, meta) => a.add_part_buffered(*s, d.clone(), *meta),
                Op::Flush => a.flush_buffers().map_err(|e| format!("error: flush_buffers: {e}"))?,
                Op::SetRaw(s, r) => a.set_raw_size(*s, *r),
            }
        }
        a.close().map_err(|e| format!("error: close: {e}"))?;
    }
    let mut r = Archive::new_reader();
    r.open(path).map_err(|e| format!("error: reopen: {e}"))?;
    let mut got = Model::default();
    got.names = r.get_stream_names();
    let n = r.get_num_streams();
    if got.names.len() != n {
        return Err("names: get_stream_names and get_num_streams disagree".into());
    }
    let mut reads = 0u64;
    for (i, nm) in got.names.clone().iter().enumerate() {
        if r.get_stream_id(nm) != Some(i) {
            return Err(format!("names: stream {:?} does not map back to id {}", nm, i));
        }
        got.raw.push(r.get_raw_size(i));
        got.parts.push(Vec::new());
    }
    // read every part by id in random order, interleaved with sequential reads
    let mut wanted: Vec<(usize, usize)> = Vec::new();
    for i in 0..n {
        for p in 0..r.get_num_parts(i) {
            wanted.push((i, p));
        }
        got.parts[i] = vec![(Vec::new(), u64::MAX); r.get_num_parts(i)];
    }
    rng.shuffle(&mut wanted);
    let mut seq_next = vec![0usize; n];
    for (i, p) in wanted {
        let (d, m) = r.get_part_by_id(i, p).map_err(|e| format!("error: get_part_by_id({i},{p}): {e}"))?;
        got.parts[i][p] = (d, m);
        reads += 1;
        if rng.chance(1, 3) {
            let s = rng.usize(0, n - 1);
            match r.get_part(s).map_err(|e| format!("error: get_part({s}): {e}"))? {
                Some((d, m)) => {
                    let q = seq_next[s];
                    seq_next[s] += 1;
                    if q >= got.parts[s].len() {
                        return Err(format!("sequential: get_part({}) returned more parts than the stream has", s));
                    }
                    let (ed, em) = r.get_part_by_id(s, q).map_err(|e| format!("error: get_part_by_id: {e}"))?;
                    if ed != d || em != m {
                        return Err(format!("sequential: get_part({}) #{} differs from get_part_by_id", s, q));
                    }
                    reads += 2;
                }
                None => {
                    if seq_next[s] != got.parts[s].len() {
                        return Err(format!("sequential: get_part({}) ended after {} of {} parts", s, seq_next[s], got.parts[s].len()));
                    }
                }
            }
        }
    }
    Ok((got, reads))
}

fn compare(want: &Model, got: &Model) -> Result<(), String> {
    if want.names != got.names {
        return Err(format!("names: stream names/ids differ: wrote {:?}, read {:?}", want.names, got.names));
    }
    for (i, name) in want.names.iter().enumerate() {
        if want.raw[i] != got.raw[i] {
            return Err(format!("rawsize: stream {:?}: raw size {} written, {} read", name, want.raw[i], got.raw[i]));
        }
        if want.parts[i].len() != got.parts[i].len() {
            return Err(format!("parts: stream {:?}: {} parts written, {} read", name, want.parts[i].len(), got.parts[i].len()));
        }
        for (p, (w, g)) in want.parts[i].iter().zip(got.parts[i].iter()).enumerate() {
            if w.0.is_empty() {
                if !g.0.is_empty() || g.1 != 0 {
                    return Err(format!("empty: stream {:?} part {}: empty part read back as ({} bytes, metadata {})", name, p, g.0.len(), g.1));
                }
            } else if w.0 != g.0 {
                return Err(format!("data: stream {:?} part {}: bytes differ ({} written, {} read)", name, p, w.0.len(), g.0.len()));
            } else if w.1 != g.1 {
                return Err(format!("metadata: stream {:?} part {}: metadata {} written, {} read", name, p, w.1, g.1));
            }
        }
    }
    Ok(())
}

fn ops_json(ops: &[Op]) -> String {
    let v: Vec<String> = ops
        .iter()
        .map(|o| match o {
            Op::Register(n) => jstr(&format!("register({:?})", n)),
            Op::Add(s, d, m) => jstr(&format!("add_part(stream={}, {} bytes, meta={})", s, d.len(), m)),
            Op::AddBuffered(s, d, m) => jstr(&format!("add_part_buffered(stream={}, {} bytes, meta={})", s, d.len(), m)),
            Op::Flush => jstr("flush_buffers"),
            Op::SetRaw(s, r) => jstr(&format!("set_raw_size(stream={}, {})", s, r)),
        })
        .collect();
    jarr(&v)
}

pub fn run(args: &Args, rep: &mut Report) {
    std::panic::set_hook(Box::new(|_| {}));
    let miri = cfg!(miri);
    let n = args.get_u64("n", if miri { 16 } else if args.tier_thorough { 300_000 } else { 3_000 });
    let dir = args.get("scratch").unwrap_or("/tmp").to_string();
    let path = format!("{}/vq-archive-{}-{}.agc", dir, std::process::id(), args.shard);
    let only: Option<u64> = args.case.as_ref().and_then(|c| c.parse().ok());
    for i in 0..n {
        if !args.mine(i) {
            continue;
        }
        if let Some(c) = only {
            if c != i {
                continue;
            }
        }
        let mut rng = Rng::derive(args.seed, 0xC13, i);
        let ops = gen_history(&mut rng, miri);
        let want = run_model(&ops);
        rep.evaluations += 1;
        let mut rng2 = rng.clone();
        let r = catch_unwind(AssertUnwindSafe(|| run_real(&ops, &path, &mut rng2)));
        let verdict = match r {
            Err(_) => Err("panic: archive code panicked".to_string()),
            Ok(Err(e)) => Err(e),
            Ok(Ok((got, reads))) => {
                rep.count("part_reads", reads);
                compare(&want, &got)
            }
        };
        match verdict {
            Ok(()) => {
                let mut imm = 0;
                let mut buf = 0;
                let mut empties = 0;
                let mut maxw = 0u64;
                let mut pending = false;
                let mut interleaved = false;
                for op in &ops {
                    match op {
                        Op::Add(_, d, m) => {
                            imm += 1;
                            if pending {
                                interleaved = true;
                            }
                            if d.is_empty() {
                                empties += 1;
                            }
                            maxw = maxw.max(((64 - m.leading_zeros() as u64) + 7) / 8);
                        }
                        Op::AddBuffered(_, d, m) => {
                            buf += 1;
                            pending = true;
                            if d.is_empty() {
                                empties += 1;
                            }
                            maxw = maxw.max(((64 - m.leading_zeros() as u64) + 7) / 8);
                        }
                        Op::Flush => pending = false,
                        _ => {}
                    }
                }
                rep.count("ops_add_part", imm);
                rep.count("ops_add_part_buffered", buf);
                rep.count("empty_parts", empties);
                rep.count("ops_total", ops.len() as u64);
                rep.max("max_metadata_bytes", maxw);
                if interleaved {
                    rep.count("histories_with_immediate_write_while_parts_buffered", 1);
                }
                // largest number of parts buffered before one flush
                let mut cur = 0u64;
                let mut best = 0u64;
                for op in &ops {
                    match op {
                        Op::AddBuffered(..) => cur += 1,
                        Op::Flush => {
                            best = best.max(cur);
                            cur = 0;
                        }
                        _ => {}
                    }
                }
                rep.max("max_parts_buffered_before_a_flush", best);
                if best > 20 {
                    rep.count("histories_with_more_than_20_parts_in_one_flush", 1);
                }
                if imm + buf >= 2 {
                    rep.nontrivial(fnv(ops_json(&ops).as_bytes()));
                }
                if rep.samples.len() < 2 && ops.len() < 14 {
                    rep.sample(jobj(&[("operations", ops_json(&ops))]));
                }
            }
            Err(w) => rep.violation(
                &format!("C13:{}", w.split(':').next().unwrap_or("")),
                jobj(&[
                    ("what", jstr(&vcommon::clip(&w, 1000))),
                    ("workload", jstr("vq archive")),
                    ("seed", args.seed.to_string()),
                    ("case", i.to_string()),
                    ("operations", ops_json(&ops)),
                ]),
            ),
        }
    }
    let _ = std::fs::remove_file(&path);
}
