//! C09: decode(encode(target)) == target for the real LZDiff, no 0xFF in the encoding, empty
//! encoding only for target == reference, no panic.

use ragc_core::LZDiff;
use std::panic::{catch_unwind, AssertUnwindSafe};
use vcommon::{codes_to_string, fnv, jobj, jstr, Args, Report, Rng};

struct Stats {
    literals: u64,
    bangs: u64,
    nruns: u64,
    matches_len: u64,
    matches_to_end: u64,
    neg_delta: u64,
    equal_ref: u64,
    code30: u64,
}

fn scan_encoding(enc: &[u8], st: &mut Stats) {
    // the encoding is a byte string over: literal letters 'A'+code, '!', N-run (30 digits 4),
    // matches (-?digits[,digits].)
    let mut i = 0;
    while i < enc.len() {
        let c = enc[i];
        if c == b'!' {
            st.bangs += 1;
            i += 1;
        } else if c == 30 {
            st.nruns += 1;
            i += 1;
            while i < enc.len() && enc[i] != 4 {
                i += 1;
            }
            i += 1;
        } else if c == b'-' || c.is_ascii_digit() {
            if c == b'-' {
                st.neg_delta += 1;
            }
            let mut has_len = false;
            while i < enc.len() && enc[i] != b'.' {
                if enc[i] == b',' {
                    has_len = true;
                }
                i += 1;
            }
            i += 1;
            if has_len {
                st.matches_len += 1;
            } else {
                st.matches_to_end += 1;
            }
        } else {
            if c == b'A' + 30 {
                st.code30 += 1;
            }
            st.literals += 1;
            i += 1;
        }
    }
}

/// Ok(encoding) or Err(what)
fn check_pair(reference: &[u8], target: &[u8], mm: u32) -> Result<Vec<u8>, String> {
    check_sequence(reference, &[target], mm).map(|mut v| v.pop().unwrap_or_default())
}

/// One encoder instance (prepared once, as a group's encoder is in the compressor) encodes the
/// targets in turn; every encoding is decoded by the same instance and by a fresh one prepared
/// with the same reference (as the decompressor does). Ok(encodings) or Err(what).
fn check_sequence(reference: &[u8], targets: &[&[u8]], mm: u32) -> Result<Vec<Vec<u8>>, String> {
    let r = catch_unwind(AssertUnwindSafe(|| {
        let mut lz = LZDiff::new(mm);
        lz.prepare(&reference.to_vec());
        let mut out = Vec::new();
        for t in targets {
            let enc = lz.encode(&t.to_vec());
            let dec = if enc.is_empty() {
                None
            } else {
                let same = lz.decode(&enc);
                let mut fresh = LZDiff::new(mm);
                fresh.prepare(&reference.to_vec());
                Some((same, fresh.decode(&enc)))
            };
            out.push((enc, dec));
        }
        out
    }));
    match r {
        Err(p) => {
            let msg = p
                .downcast_ref::<String>()
                .cloned()
                .or_else(|| p.downcast_ref::<&str>().map(|s| s.to_string()))
                .unwrap_or_default();
            Err(format!("panic: {}", msg))
        }
        Ok(results) => {
            let mut encs = Vec::new();
            for (ti, ((enc, dec), target)) in results.into_iter().zip(targets.iter()).enumerate() {
                let nth = if ti == 0 { String::new() } else { format!(" (target {} encoded by the same encoder instance)", ti + 1) };
                if enc.contains(&0xFF) {
                    return Err(format!("encoding contains the pack separator 0xFF{}", nth));
                }
                match dec {
                    None => {
                        if *target != reference {
                            return Err(format!("empty encoding although target differs from reference{}", nth));
                        }
                    }
                    Some((same, fresh)) => {
                        for (who, d) in [("the encoder's own instance", &same), ("a fresh decoder", &fresh)] {
                            if &d[..] != *target {
                                let pos = d.iter().zip(target.iter()).position(|(a, b)| a != b).unwrap_or(d.len().min(target.len()));
                                return Err(format!(
                                    "decode(encode(t)) != t: decoded by {}: lengths {} vs {}, first difference at {}{}",
                                    who,
                                    d.len(),
                                    target.len(),
                                    pos,
                                    nth
                                ));
                            }
                        }
                    }
                }
                encs.push(enc);
            }
            Ok(encs)
        }
    }
}

fn report_violation(rep: &mut Report, args: &Args, what: &str, reference: &[u8], target: &[u8], mm: u32, case: &str) {
    let sig = if what.starts_with("panic") {
        // keep the panic message class in the signature
        let m = what.trim_start_matches("panic: ");
        format!("C09:panic:{}", m.split(':').next().unwrap_or(m).chars().take(60).collect::<String>())
    } else {
        format!("C09:{}", what.split(':').next().unwrap_or(what))
    };
    rep.violation(
        &sig,
        jobj(&[
            ("what", jstr(what)),
            ("workload", jstr("vq lz")),
            ("seed", args.seed.to_string()),
            ("case", jstr(case)),
            ("min_match", mm.to_string()),
            ("reference", jstr(&vcommon::clip(&codes_to_string(reference), 4000))),
            ("target", jstr(&vcommon::clip(&codes_to_string(target), 4000))),
        ]),
    );
}

fn account(rep: &mut Report, st: &Stats) {
    rep.count("op_literals", st.literals);
    rep.count("op_bang_literals", st.bangs);
    rep.count("op_nruns", st.nruns);
    rep.count("op_matches_with_length", st.matches_len);
    rep.count("op_matches_to_end", st.matches_to_end);
    rep.count("op_negative_position_delta", st.neg_delta);
    rep.count("targets_equal_to_reference", st.equal_ref);
    rep.count("op_code30_literals", st.code30);
}

fn for_all_strings(alpha: &[u8], len: usize, f: &mut dyn FnMut(&[u8])) {
    let mut idx = vec![0usize; len];
    let mut s = vec![alpha[0]; len];
    loop {
        f(&s);
        let mut p = len;
        loop {
            if p == 0 {
                return;
            }
            p -= 1;
            idx[p] += 1;
            if idx[p] < alpha.len() {
                s[p] = alpha[idx[p]];
                break;
            }
            idx[p] = 0;
            s[p] = alpha[0];
        }
    }
}

/// Pairs beyond 65 535 symbols with only a handful of differences: matches, position deltas
/// and N runs whose length does not fit 16 bits
fn huge_case(args: &Args, rep: &mut Report, st: &mut Stats, i: u64, rng: &mut Rng) {
    let len = rng.usize(70_000, 260_000);
    let mut reference = random_seq(rng, len, false);
    if rng.chance(1, 2) {
        let at = rng.usize(0, len - 1);
        let l = (*rng.pick(&[300usize, 70_000])).min(len - at);
        for x in reference[at..at + l].iter_mut() {
            *x = 4;
        }
    }
    let mut target = reference.clone();
    match rng.below(4) {
        0 => {
            // block move: the second half first
            let cut = rng.usize(len / 3, 2 * len / 3);
            target = [&reference[cut..], &reference[..cut]].concat();
        }
        1 => {
            let at = rng.usize(0, len - 1);
            let l = (*rng.pick(&[260usize, 66_000])).min(len - at);
            for x in target[at..at + l].iter_mut() {
                *x = 4;
            }
        }
        _ => {}
    }
    for _ in 0..rng.usize(0, 4) {
        let p = rng.usize(0, target.len() - 1);
        target[p] = rng.below(4) as u8;
    }
    if rng.chance(1, 3) {
        let p = rng.usize(0, target.len() - 1);
        target.remove(p);
    }
    let mm = rng.range(5, 32) as u32;
    rep.evaluations += 1;
    match check_pair(&reference, &target, mm) {
        Ok(enc) => {
            rep.count("pairs_longer_than_65535_symbols", 1);
            if enc.is_empty() {
                st.equal_ref += 1;
            }
            scan_encoding(&enc, st);
            rep.nontrivial(fnv(&target) ^ fnv(&reference).rotate_left(7) ^ mm as u64);
        }
        Err(w) => report_violation(rep, args, &w, &reference, &target, mm, &format!("rand:{}", i)),
    }
}

fn mutate(rng: &mut Rng, src: &[u8], allow30: bool) -> Vec<u8> {
    let mut t: Vec<u8> = src.to_vec();
    let nmut = rng.usize(0, 1 + src.len() / 20);
    for _ in 0..nmut {
        if t.is_empty() {
            t.push(rng.below(4) as u8);
            continue;
        }
        let p = rng.usize(0, t.len() - 1);
        match rng.below(9) {
            0 | 1 => t[p] = rng.below(4) as u8,
            2 => {
                t.insert(p, rng.below(4) as u8);
            }
            3 => {
                t.remove(p);
            }
            4 => {
                let n = rng.usize(1, 12);
                for _ in 0..n {
                    t.insert(p, 4);
                }
            }
            5 => t[p] = rng.range(4, 15) as u8,
            6 if allow30 => t[p] = 30,
            7 => {
                // block move
                let l = rng.usize(1, (t.len() / 3).max(1));
                let a = rng.usize(0, t.len() - l);
                let blk: Vec<u8> = t.drain(a..a + l).collect();
                let b = rng.usize(0, t.len());
                for (i, x) in blk.into_iter().enumerate() {
                    t.insert(b + i, x);
                }
            }
            _ => {
                // delete a block
                let l = rng.usize(1, (t.len() / 4).max(1));
                let a = rng.usize(0, t.len() - l);
                t.drain(a..a + l);
            }
        }
    }
    t
}

fn random_seq(rng: &mut Rng, len: usize, repeat: bool) -> Vec<u8> {
    if repeat && len > 8 {
        let unit = rng.usize(1, 12);
        let u: Vec<u8> = (0..unit).map(|_| rng.below(4) as u8).collect();
        (0..len).map(|i| if rng.chance(1, 40) { rng.below(4) as u8 } else { u[i % unit] }).collect()
    } else {
        (0..len).map(|_| rng.below(4) as u8).collect()
    }
}

fn revcomp(s: &[u8]) -> Vec<u8> {
    s.iter().rev().map(|&b| if b < 4 { 3 - b } else { b }).collect()
}

pub fn run(args: &Args, rep: &mut Report) {
    std::panic::set_hook(Box::new(|_| {}));
    let miri = cfg!(miri);
    let mut st = Stats { literals: 0, bangs: 0, nruns: 0, matches_len: 0, matches_to_end: 0, neg_delta: 0, equal_ref: 0, code30: 0 };
    if args.case.as_deref() == Some("pair") {
        let reference = vcommon::string_to_codes(args.get("ref").unwrap_or(""));
        let target = vcommon::string_to_codes(args.get("tgt").unwrap_or(""));
        let mm = args.get_u64("mm", 20) as u32;
        rep.evaluations += 1;
        if let Err(w) = check_pair(&reference, &target, mm) {
            report_violation(rep, args, &w, &reference, &target, mm, "pair");
        }
        return;
    }
    if let Some(c) = &args.case {
        // replay: "rand:<index>"
        if let Some(idx) = c.strip_prefix("rand:").and_then(|s| s.parse::<u64>().ok()) {
            random_case(args, rep, &mut st, idx, true);
        }
        account(rep, &st);
        return;
    }
    // ---- exhaustive part: all (reference, target) over small alphabets ----
    // alphabets: {A,C,N} up to len L1, {A,T,N,?} up to L2; min match 5..8 (key length 2..5)
    let (l1, l2) = if miri {
        (2usize, 2usize)
    } else if args.tier_thorough {
        (6, 5)
    } else {
        (5, 4)
    };
    let mut exh_index: u64 = 0;
    let mut exhaustive_cases: u64 = 0;
    for (alpha, maxlen) in [(&[0u8, 1, 4][..], l1), (&[0u8, 3, 4, 30][..], l2)] {
        for rl in 0..=maxlen {
            let mut refs: Vec<Vec<u8>> = Vec::new();
            if rl == 0 {
                refs.push(Vec::new());
            } else {
                for_all_strings(alpha, rl, &mut |s| refs.push(s.to_vec()));
            }
            for reference in refs {
                exh_index += 1;
                if !args.mine(exh_index) {
                    continue;
                }
                for tl in 1..=maxlen {
                    for mm in 5..=(if miri { 6u32 } else { 8u32 }) {
                        // skip most min-match values for the longest strings in quick mode
                        if !args.tier_thorough && !miri && tl == maxlen && mm > 6 {
                            continue;
                        }
                        for_all_strings(alpha, tl, &mut |t| {
                            exhaustive_cases += 1;
                            match check_pair(&reference, t, mm) {
                                Ok(enc) => {
                                    if enc.is_empty() {
                                        st.equal_ref += 1;
                                    }
                                    scan_encoding(&enc, &mut st);
                                }
                                Err(w) => report_violation(rep, args, &w, &reference, t, mm, "exhaustive"),
                            }
                        });
                    }
                }
            }
        }
    }
    rep.evaluations += exhaustive_cases;
    rep.count("exhaustive_pairs", exhaustive_cases);
    // ---- N runs of length 1..6 at every position of short ACGT strings with real matches ----
    {
        let mut rng = Rng::derive(args.seed, 0xC09, 1);
        let base_n = if miri { 1 } else if args.tier_thorough { 400 } else { 40 };
        for b in 0..base_n {
            if !args.mine(b) {
                continue;
            }
            let len = rng.usize(8, if miri { 14 } else { 40 });
            let reference = random_seq(&mut rng, len, false);
            for run in 1..=6usize {
                if miri && run % 3 != 1 {
                    continue;
                }
                for pos in 0..=len {
                    let mut t = reference.clone();
                    for _ in 0..run {
                        t.insert(pos, 4);
                    }
                    for mm in [5u32, 6, 9] {
                        rep.evaluations += 1;
                        match check_pair(&reference, &t, mm) {
                            Ok(enc) => scan_encoding(&enc, &mut st),
                            Err(w) => report_violation(rep, args, &w, &reference, &t, mm, "nrun-sweep"),
                        }
                    }
                }
            }
            rep.nontrivial(fnv(&reference) ^ 0x17);
        }
    }
    // ---- random / mutation-derived pairs ----
    let n_random = args.get_u64("n", if miri { 6 } else if args.tier_thorough { 2_000_000 } else { 6_000 });
    for i in 0..n_random {
        if !args.mine(i) {
            continue;
        }
        random_case(args, rep, &mut st, i, false);
    }
    account(rep, &st);
    rep.distinct_by_construction += exhaustive_cases;
}

fn random_case(args: &Args, rep: &mut Report, st: &mut Stats, i: u64, verbose: bool) {
    let miri = cfg!(miri);
    let mut rng = Rng::derive(args.seed, 0xC09, 1000 + i);
    if !miri && i % 600 == 599 {
        return huge_case(args, rep, st, i, &mut rng);
    }
    let big = !miri && rng.chance(1, 40);
    let maxlen = if miri { 60 } else if big { 50_000 } else { 600 };
    let len = match rng.below(5) {
        0 => rng.usize(0, 12),
        1 => rng.usize(0, 64),
        _ => rng.usize(0, maxlen),
    };
    let repeat = rng.chance(1, 4);
    let mut reference = random_seq(&mut rng, len, repeat);
    if rng.chance(1, 3) {
        reference = mutate(&mut rng, &reference, false); // references may contain N / IUPAC too
    }
    let allow30 = rng.chance(1, 3);
    let mut target = match rng.below(8) {
        0 => {
            let l = rng.usize(1, maxlen.max(1));
            random_seq(&mut rng, l, repeat)
        }
        1 => revcomp(&reference),
        2 => {
            // suffix / prefix / middle of the reference
            if reference.is_empty() {
                vec![0]
            } else {
                let a = rng.usize(0, reference.len() - 1);
                let b = rng.usize(a, reference.len() - 1);
                reference[a..=b].to_vec()
            }
        }
        _ => mutate(&mut rng, &reference, allow30),
    };
    if rng.chance(1, 6) {
        target = mutate(&mut rng, &target, allow30);
    }
    if target.is_empty() {
        target.push(rng.below(4) as u8);
    }
    let mm = if rng.chance(1, 2) { rng.range(5, 12) as u32 } else { rng.range(5, 32) as u32 };
    rep.evaluations += 1;
    match check_pair(&reference, &target, mm) {
        Ok(enc) => {
            if enc.is_empty() {
                st.equal_ref += 1;
            }
            let before = st.matches_len + st.matches_to_end;
            scan_encoding(&enc, st);
            if st.matches_len + st.matches_to_end > before {
                rep.nontrivial(fnv(&target) ^ fnv(&reference).rotate_left(7) ^ mm as u64);
            }
            if verbose || (rep.samples.len() < 3 && target.len() < 80 && !enc.is_empty() && enc.len() < target.len()) {
                rep.sample(jobj(&[
                    ("min_match", mm.to_string()),
                    ("reference", jstr(&codes_to_string(&reference))),
                    ("target", jstr(&codes_to_string(&target))),
                    ("encoding", jstr(&String::from_utf8_lossy(&enc))),
                ]));
            }
        }
        Err(w) => report_violation(rep, args, &w, &reference, &target, mm, &format!("rand:{}", i)),
    }
    // the compressor keeps one encoder per group and feeds it one segment after the other
    if rng.chance(1, 4) && target.len() < 5000 {
        let more: Vec<Vec<u8>> = (0..rng.usize(1, 3))
            .map(|_| {
                let mut t = match rng.below(4) {
                    0 => reference.clone(),
                    1 => mutate(&mut rng, &target, allow30),
                    _ => mutate(&mut rng, &reference, allow30),
                };
                if t.is_empty() {
                    t.push(rng.below(4) as u8);
                }
                t
            })
            .collect();
        let mut all: Vec<&[u8]> = vec![&target[..]];
        all.extend(more.iter().map(|t| &t[..]));
        rep.evaluations += 1;
        match check_sequence(&reference, &all, mm) {
            Ok(_) => rep.count("encoder_instances_reused_for_several_targets", 1),
            Err(w) => {
                // report against the target that failed (the last one for a panic)
                let idx = w.rsplit("(target ").next().and_then(|x| x.split(' ').next()).and_then(|x| x.parse::<usize>().ok()).map(|x| x - 1).unwrap_or(all.len() - 1);
                report_violation(rep, args, &w, &reference, all[idx.min(all.len() - 1)], mm, &format!("rand:{}", i))
            }
        }
    }
}
