//! C03 (codec half): contig-name delta codec and 5-stream descriptor codec, driven directly
//! through the cfg(ragc_verif) pass-through wrappers (no ZSTD, no archive file).

use ragc_common::{CollectionV3, SegmentDesc};
use std::panic::{catch_unwind, AssertUnwindSafe};
use vcommon::{fnv, jarr, jobj, jstr, Args, Report, Rng};

type Table = Vec<(String, Vec<(String, Vec<SegmentDesc>)>)>;

fn rand_field(rng: &mut Rng) -> String {
    const ALNUM: &[u8] = b"abcXYZ0123456789_.|:#=/-";
    let len = match rng.below(10) {
        0 => 0,
        1 => 1,
        2 => rng.usize(100, 240),
        _ => rng.usize(1, 14),
    };
    let printable = rng.chance(1, 5);
    (0..len)
        .map(|_| {
            if printable {
                let c = rng.range(0x21, 0x7e) as u8; // printable, no space
                c as char
            } else {
                *rng.pick(ALNUM) as char
            }
        })
        .collect()
}

/// Derive the next name from the previous one, field by field
fn next_name(rng: &mut Rng, prev: &str) -> String {
    let pf: Vec<&str> = prev.split(' ').collect();
    let n = match rng.below(8) {
        0 => rng.usize(1, 6),
        1 => pf.len() + 1,
        2 => pf.len().saturating_sub(1).max(1),
        _ => pf.len(),
    };
    let mut out: Vec<String> = Vec::new();
    for i in 0..n {
        let p = pf.get(i).copied().unwrap_or("");
        let f = match rng.below(10) {
            0 | 1 | 2 => p.to_string(), // identical field
            3 | 4 | 5 => {
                // same length, a few characters changed (run-length branch); long runs of equal
                // characters cross the 100-count marker
                let mut b: Vec<u8> = p.bytes().collect();
                let changes = rng.usize(0, 3);
                for _ in 0..changes {
                    if b.is_empty() {
                        break;
                    }
                    let q = rng.usize(0, b.len() - 1);
                    b[q] = if rng.chance(1, 3) { b'\t' } else { rng.range(0x21, 0x7e) as u8 };
                }
                String::from_utf8(b).unwrap()
            }
            6 => {
                // numeric increment (chr1 -> chr2, 9 -> 10)
                let digits: String = p.chars().rev().take_while(|c| c.is_ascii_digit()).collect::<String>().chars().rev().collect();
                if digits.is_empty() || digits.len() > 15 {
                    rand_field(rng)
                } else {
                    let head = &p[..p.len() - digits.len()];
                    format!("{}{}", head, digits.parse::<u64>().unwrap() + 1)
                }
            }
            7 => String::new(), // empty field (double space)
            _ => rand_field(rng),
        };
        out.push(f);
    }
    out.join(" ")
}

fn gen_table(rng: &mut Rng, miri: bool) -> (Table, u32, u32) {
    let ns = if miri { rng.usize(1, 3) } else if rng.chance(1, 60) { rng.usize(250, 310) } else if rng.chance(1, 10) { rng.usize(50, 130) } else { rng.usize(1, 8) };
    let seg_size = *rng.pick(&[0u32, 50, 1000, 60000]);
    let k = rng.range(1, 32) as u32;
    let pred = seg_size + k;
    let max_group = if miri { 40 } else { *rng.pick(&[20u64, 300, 70_000, 1 << 20]) };
    let mut table: Table = Vec::new();
    let mut used_samples = std::collections::HashSet::new();
    for s in 0..ns {
        let sname = loop {
            let base = if rng.chance(1, 3) { format!("S{}#{}", s, rng.below(3)) } else { rand_field(rng) };
            let cand = if base.is_empty() { format!("s{}", s) } else { base };
            if used_samples.insert(cand.clone()) {
                break cand;
            }
        };
        let nc = if miri { rng.usize(0, 3) } else if ns < 20 && rng.chance(1, 30) { rng.usize(125, 400) } else if rng.chance(1, 12) { rng.usize(30, 120) } else { rng.usize(0, 8) };
        let mut contigs: Vec<(String, Vec<SegmentDesc>)> = Vec::new();
        let mut used = std::collections::HashSet::new();
        let mut prev = String::new();
        for c in 0..nc {
            let mut name = if c == 0 || rng.chance(1, 10) {
                let nf = rng.usize(1, 5);
                (0..nf).map(|_| rand_field(rng)).collect::<Vec<_>>().join(" ")
            } else {
                next_name(rng, &prev)
            };
            if name.len() > 400 {
                name.truncate(400);
            }
            // contig names are keys within a sample: keep them unique
            let mut salt = 0;
            while !used.insert(name.clone()) {
                name = format!("{} u{}_{}", name, c, salt);
                salt += 1;
            }
            prev = name.clone();
            let nseg = if rng.chance(1, 8) { 0 } else if !miri && rng.chance(1, 150) { rng.usize(120, 300) } else { rng.usize(1, if miri { 4 } else { 12 }) };
            let mut segs = Vec::new();
            for _ in 0..nseg {
                let group = if rng.chance(1, 3) { rng.below(24) } else { rng.below(max_group) } as u32;
                let in_group = match rng.below(8) {
                    0 => 0,
                    1 => rng.below(4) as u32,
                    2 => rng.below(1 << 24) as u32,
                    _ => rng.below(60) as u32,
                };
                let raw_len = match rng.below(6) {
                    0 => pred,
                    1 => pred.saturating_sub(rng.below(40) as u32),
                    2 => pred + rng.below(40) as u32,
                    3 => rng.below(2 * pred as u64 + 5) as u32,
                    4 => rng.below(1 << 26) as u32,
                    _ => rng.below(70_000) as u32,
                };
                segs.push(SegmentDesc::new(group, in_group, rng.chance(1, 2), raw_len));
            }
            contigs.push((name, segs));
        }
        table.push((sname, contigs));
    }
    // make later samples reuse groups with consecutive in-group ids (the predictor's +1 branch)
    let mut next_in_group: std::collections::HashMap<u32, u32> = std::collections::HashMap::new();
    if rng.chance(1, 2) {
        for (_, contigs) in table.iter_mut() {
            for (_, segs) in contigs.iter_mut() {
                for s in segs.iter_mut() {
                    if rng.chance(2, 3) {
                        let e = next_in_group.entry(s.group_id).or_insert(0);
                        s.in_group_id = *e;
                        *e += 1;
                    }
                }
            }
        }
    }
    (table, seg_size, k)
}

fn build(table: &Table, seg_size: u32, k: u32) -> CollectionV3 {
    let mut c = CollectionV3::new();
    c.set_config(seg_size, k, None);
    for (s, contigs) in table {
        if contigs.is_empty() {
            // a sample can only be created together with a contig; handled by the caller
            continue;
        }
        for (name, segs) in contigs {
            c.register_sample_contig(s, name).unwrap();
            for (place, d) in segs.iter().enumerate() {
                c.add_segment_placed(s, name, place, d.group_id, d.in_group_id, d.is_rev_comp, d.raw_length).unwrap();
            }
        }
    }
    c
}

fn roundtrip(table: &Table, seg_size: u32, k: u32) -> Result<Table, String> {
    let mut w = build(table, seg_size, k);
    let n = w.get_no_samples();
    let names = w.verif_serialize_sample_names();
    // batches of 50 samples like the compressor does
    let mut parts = Vec::new();
    let mut i = 0;
    while i < n {
        let j = (i + 50).min(n);
        let cn = w.verif_serialize_contig_names(i, j);
        let cd = w.verif_serialize_contig_details(i, j);
        parts.push((i, cn, cd));
        i = j;
    }
    let mut r = CollectionV3::new();
    r.set_config(seg_size, k, None);
    r.verif_deserialize_sample_names(&names).map_err(|e| format!("error: sample names: {e}"))?;
    for (i, cn, cd) in &parts {
        r.verif_deserialize_contig_names(cn, *i).map_err(|e| format!("error: contig names: {e}"))?;
        r.verif_deserialize_contig_details(cd, *i).map_err(|e| format!("error: details: {e}"))?;
    }
    let mut out: Table = Vec::new();
    for s in r.get_samples_list(false) {
        let d = r.get_sample_desc(&s).ok_or_else(|| format!("error: sample {:?} lost", s))?;
        out.push((s, d));
    }
    Ok(out)
}

/// Full path: store the batches through a real Archive file (ZSTD, 50-sample batches), reopen
/// it and load everything back the way the decompressor does.
fn roundtrip_file(table: &Table, seg_size: u32, k: u32, path: &str) -> Result<Table, String> {
    use ragc_common::Archive;
    let mut w = build(table, seg_size, k);
    let n = w.get_no_samples();
    {
        let mut a = Archive::new_writer();
        a.open(path).map_err(|e| format!("error: open: {e}"))?;
        w.prepare_for_compression(&mut a).map_err(|e| format!("error: prepare: {e}"))?;
        w.store_batch_sample_names(&mut a).map_err(|e| format!("error: store names: {e}"))?;
        let mut i = 0;
        while i < n {
            let j = (i + 50).min(n);
            w.store_contig_batch(&mut a, i, j).map_err(|e| format!("error: store batch: {e}"))?;
            i = j;
        }
        a.flush_buffers().map_err(|e| format!("error: flush: {e}"))?;
        a.close().map_err(|e| format!("error: close: {e}"))?;
    }
    let mut a = Archive::new_reader();
    a.open(path).map_err(|e| format!("error: reopen: {e}"))?;
    let mut r = CollectionV3::new();
    r.set_config(seg_size, k, None);
    r.prepare_for_decompression(&a).map_err(|e| format!("error: prepare read: {e}"))?;
    r.load_batch_sample_names(&mut a).map_err(|e| format!("error: load names: {e}"))?;
    let nb = r.get_no_contig_batches(&a).map_err(|e| format!("error: batches: {e}"))?;
    // load all batches twice: the second pass must be idempotent (readers reload on demand)
    for _pass in 0..2 {
        for b in 0..nb {
            r.load_contig_batch(&mut a, b).map_err(|e| format!("error: load batch {b}: {e}"))?;
        }
    }
    let mut out: Table = Vec::new();
    for s in r.get_samples_list(false) {
        let d = r.get_sample_desc(&s).ok_or_else(|| format!("error: sample {:?} lost", s))?;
        out.push((s, d));
    }
    Ok(out)
}

fn branch_counts(rep: &mut Report, table: &Table, seg_size: u32, k: u32) {
    // which codec branches did this table exercise? (computed from the table itself)
    for (_, contigs) in table {
        let mut prev: Vec<&str> = Vec::new();
        for (name, _) in contigs {
            let cur: Vec<&str> = name.split(' ').collect();
            if cur.len() != prev.len() {
                rep.count("names_full", 1);
            } else {
                rep.count("names_delta", 1);
                for (p, c) in prev.iter().zip(cur.iter()) {
                    if p == c {
                        rep.count("field_same_marker", 1);
                    } else if p.len() != c.len() {
                        rep.count("field_literal", 1);
                    } else {
                        rep.count("field_run_length", 1);
                        // longest run of equal characters
                        let mut run = 0;
                        let mut best = 0;
                        for (a, b) in p.bytes().zip(c.bytes()) {
                            if a == b {
                                run += 1;
                                best = best.max(run);
                            } else {
                                run = 0;
                            }
                        }
                        if best > 100 {
                            rep.count("field_run_longer_than_100", 1);
                        }
                    }
                    if c.is_empty() {
                        rep.count("field_empty", 1);
                    }
                }
            }
            prev = cur;
        }
    }
    let pred = (seg_size + k) as u64;
    let mut last: std::collections::HashMap<u32, i64> = std::collections::HashMap::new();
    let mut batch_start = 0usize;
    for (si, (_, contigs)) in table.iter().filter(|(_, c)| !c.is_empty()).enumerate() {
        if si >= batch_start + 50 {
            batch_start += 50;
            last.clear();
        }
        for (_, segs) in contigs {
            for s in segs {
                let p = last.get(&s.group_id).copied().unwrap_or(-1);
                let key = if p == -1 {
                    "pred_first"
                } else if s.in_group_id == 0 {
                    "pred_zero"
                } else if s.in_group_id as i64 == p + 1 {
                    "pred_plus_one"
                } else if (s.in_group_id as i64) < p + 1 {
                    "pred_zigzag_below"
                } else if (s.in_group_id as i64) < 2 * (p + 1) {
                    "pred_zigzag_above"
                } else {
                    "pred_far"
                };
                rep.count(key, 1);
                if s.in_group_id as i64 > p && s.in_group_id > 0 {
                    last.insert(s.group_id, s.in_group_id as i64);
                }
                let l = s.raw_length as u64;
                rep.count(if l == pred { "len_equal_pred" } else if l < pred { "len_below" } else if l < 2 * pred { "len_above" } else { "len_far" }, 1);
            }
        }
    }
}

fn table_json(t: &Table, limit: usize) -> String {
    let items: Vec<String> = t
        .iter()
        .take(limit)
        .map(|(s, cs)| {
            let c: Vec<String> = cs
                .iter()
                .take(limit)
                .map(|(n, segs)| {
                    let sg: Vec<String> = segs
                        .iter()
                        .map(|d| format!("[{},{},{},{}]", d.group_id, d.in_group_id, d.is_rev_comp as u8, d.raw_length))
                        .collect();
                    jobj(&[("name", jstr(n)), ("segments_group_ingroup_rc_len", jarr(&sg))])
                })
                .collect();
            jobj(&[("sample", jstr(s)), ("contigs", jarr(&c))])
        })
        .collect();
    jarr(&items)
}

pub fn run(args: &Args, rep: &mut Report) {
    std::panic::set_hook(Box::new(|_| {}));
    let miri = cfg!(miri);
    let full = args.get("full") == Some("1");
    let path = format!("{}/vq-catalogue-{}-{}.agc", args.get("scratch").unwrap_or("/tmp"), std::process::id(), args.shard);
    let n = args.get_u64(
        "n",
        if miri {
            6
        } else if full {
            if args.tier_thorough { 640 } else { 32 }
        } else if args.tier_thorough {
            150_000
        } else {
            2_500
        },
    );
    let only: Option<u64> = args.case.as_ref().and_then(|c| c.parse().ok());
    for i in 0..n {
        if !args.mine(i) {
            continue;
        }
        if let Some(c) = only {
            if c != i {
                continue;
            }
        }
        let mut rng = Rng::derive(args.seed, if full { 0xC03F } else { 0xC03 }, i);
        let (mut table, seg_size, k) = gen_table(&mut rng, miri);
        // samples without contigs cannot be registered through the public API
        table.retain(|(_, c)| !c.is_empty());
        if table.is_empty() {
            continue;
        }
        rep.evaluations += 1;
        let r = catch_unwind(AssertUnwindSafe(|| if full { roundtrip_file(&table, seg_size, k, &path) } else { roundtrip(&table, seg_size, k) }));
        let verdict = match r {
            Err(_) => Err("panic: codec panicked".to_string()),
            Ok(Err(e)) => Err(e),
            Ok(Ok(back)) => {
                if back.len() != table.len() {
                    Err(format!("samples: {} samples written, {} read", table.len(), back.len()))
                } else {
                    let mut res = Ok(());
                    'outer: for (a, b) in table.iter().zip(back.iter()) {
                        if a.0 != b.0 {
                            res = Err(format!("samples: sample name/order differs: {:?} vs {:?}", a.0, b.0));
                            break;
                        }
                        if a.1.len() != b.1.len() {
                            res = Err(format!("contigs: sample {:?}: {} contigs written, {} read", a.0, a.1.len(), b.1.len()));
                            break;
                        }
                        for (x, y) in a.1.iter().zip(b.1.iter()) {
                            if x.0 != y.0 {
                                res = Err(format!("names: contig name differs: wrote {:?}, read {:?}", x.0, y.0));
                                break 'outer;
                            }
                            if x.1 != y.1 {
                                res = Err(format!("descriptors: segment table of {:?} differs: wrote {:?}, read {:?}", x.0, x.1, y.1));
                                break 'outer;
                            }
                        }
                    }
                    res
                }
            }
        };
        match verdict {
            Ok(()) => {
                branch_counts(rep, &table, seg_size, k);
                rep.max("max_samples", table.len() as u64);
                rep.count(if full { "tables_through_archive_file" } else { "tables_through_codec_only" }, 1);
                if table.len() > 50 {
                    rep.count("tables_with_several_batches", 1);
                }
                if table.len() > 256 {
                    rep.count("tables_with_more_than_256_samples", 1);
                }
                let max_contigs = table.iter().map(|(_, c)| c.len()).max().unwrap_or(0);
                let max_segs = table.iter().flat_map(|(_, c)| c.iter().map(|(_, s)| s.len())).max().unwrap_or(0);
                rep.max("max_contigs_in_a_sample", max_contigs as u64);
                rep.max("max_segments_in_a_contig", max_segs as u64);
                if max_contigs > 128 {
                    rep.count("tables_with_more_than_128_contigs_in_a_sample", 1);
                }
                if max_segs > 128 {
                    rep.count("tables_with_more_than_128_segments_in_a_contig", 1);
                }
                let nseg: usize = table.iter().map(|(_, c)| c.iter().map(|(_, s)| s.len()).sum::<usize>()).sum();
                if nseg > 0 {
                    let mut h = 0u64;
                    for (s, cs) in &table {
                        h ^= fnv(s.as_bytes());
                        for (n, _) in cs {
                            h = h.rotate_left(5) ^ fnv(n.as_bytes());
                        }
                    }
                    rep.nontrivial(h ^ nseg as u64);
                }
                if rep.samples.len() < 2 && table.len() <= 3 {
                    rep.sample(jobj(&[("segment_size", seg_size.to_string()), ("k", k.to_string()), ("table", table_json(&table, 4))]));
                }
            }
            Err(w) => rep.violation(
                &format!("C03:{}", w.split(':').next().unwrap_or("")),
                jobj(&[
                    ("what", jstr(&vcommon::clip(&w, 1500))),
                    ("workload", jstr(if full { "vq names full=1" } else { "vq names" })),
                    ("seed", args.seed.to_string()),
                    ("case", i.to_string()),
                    ("segment_size", seg_size.to_string()),
                    ("k", k.to_string()),
                    ("table", table_json(&table, 6)),
                ]),
            ),
        }
    }
    let _ = std::fs::remove_file(&path);
}
