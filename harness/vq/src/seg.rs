//! C10: segmentation tiles each contig with exact k-base overlaps at splitters.

use crate::oracle;
use ahash::AHashSet;
use ragc_core::segment::{split_at_splitters, split_at_splitters_with_size, Segment, MISSING_KMER};
use vcommon::{codes_to_string, fnv, jobj, jstr, Args, Report, Rng};

/// Err(what) if the tiling rules are broken
fn check_tiling(contig: &[u8], k: usize, splitters: &AHashSet<u64>, segs: &[Segment]) -> Result<(u64, u64), String> {
    if segs.is_empty() {
        return Err("no-segments: no segment returned".into());
    }
    let own: Vec<u64> = oracle::canonical_kmers(contig, k);
    let has_splitter = own.iter().any(|x| splitters.contains(x));
    if contig.len() < k || !has_splitter {
        if segs.len() != 1 {
            return Err(format!("single: contig without splitters / shorter than k gave {} segments", segs.len()));
        }
        let s = &segs[0];
        if s.data != contig {
            return Err("single: the only segment is not the whole contig".into());
        }
        if s.front_kmer != MISSING_KMER || s.back_kmer != MISSING_KMER {
            return Err("single: the only segment of a contig without splitters must have both k-mers missing".into());
        }
        return Ok((1, 0));
    }
    // positions: reconstruct start of every segment from the overlap rule
    let mut start = 0usize;
    let mut rebuilt: Vec<u8> = Vec::with_capacity(contig.len());
    let mut zero_tails = 0u64;
    for (i, s) in segs.iter().enumerate() {
        if i == 0 {
            // (whether the first segment of a multi-segment contig carries a front k-mer, and the
            // last one a back k-mer, is not part of the property: not judged)
            rebuilt.extend_from_slice(&s.data);
        } else {
            if s.data.len() < k {
                return Err(format!("short: segment {} has {} bases, fewer than k={}", i, s.data.len(), k));
            }
            rebuilt.extend_from_slice(&s.data[k..]);
            if s.data.len() == k {
                zero_tails += 1;
            }
        }
        let end = start + s.data.len();
        if end > contig.len() || contig[start..end] != s.data[..] {
            return Err(format!("overlap: segment {} is not contig[{}..{}] (does not start k bases before the previous end)", i, start, end));
        }
        if i + 1 < segs.len() {
            // internal boundary: the k-mer ending here is a splitter, recorded on both sides
            let Some((c, d)) = oracle::canonical_at(contig, end, k) else {
                return Err(format!("boundary: boundary after segment {} is not an ACGT k-mer", i));
            };
            if !splitters.contains(&c) {
                return Err(format!("boundary: boundary k-mer after segment {} is not in the splitter set", i));
            }
            if s.back_kmer != c {
                return Err(format!("boundary: segment {} does not record the boundary k-mer as its back k-mer", i));
            }
            if segs[i + 1].front_kmer != c {
                return Err(format!("boundary: segment {} does not record the boundary k-mer as its front k-mer", i + 1));
            }
            if s.back_kmer_is_dir != d || segs[i + 1].front_kmer_is_dir != d {
                return Err(format!("boundary: orientation flag of the boundary k-mer after segment {} is wrong", i));
            }
            start = end - k;
        } else {
            if end != contig.len() {
                return Err("last: last segment does not end at the last base".into());
            }
        }
    }
    if rebuilt != contig {
        return Err("concat: dropping the first k bases of later segments and concatenating does not reproduce the contig".into());
    }
    Ok((segs.len() as u64, zero_tails))
}

fn gen_case(rng: &mut Rng, miri: bool) -> (Vec<u8>, usize, AHashSet<u64>, &'static str) {
    let k = if rng.chance(1, 5) { *rng.pick(&[1usize, 2, 3, 31, 32]) } else { rng.usize(1, 32) };
    let maxlen = if miri { 60 } else { 400 };
    let len = match rng.below(6) {
        0 => rng.usize(0, k + 2),
        1 => rng.usize(k.saturating_sub(1), 2 * k + 2),
        _ => rng.usize(0, maxlen),
    };
    let n_rate = *rng.pick(&[0u64, 0, 0, 2, 10]);
    let lowc = rng.chance(1, 6);
    let contig: Vec<u8> = (0..len)
        .map(|i| {
            if rng.below(100) < n_rate {
                *rng.pick(&[4u8, 7, 15])
            } else if lowc {
                (i % 2) as u8 * 3 * (rng.below(10) > 0) as u8
            } else {
                rng.below(4) as u8
            }
        })
        .collect();
    let own = oracle::canonical_kmers(&contig, k);
    let mut set = AHashSet::new();
    let kind: &'static str;
    match rng.below(7) {
        0 => kind = "empty",
        1 => {
            kind = "dense";
            set.extend(own.iter().copied());
        }
        2 => {
            kind = "last-window";
            if let Some(x) = own.last() {
                set.insert(*x);
            }
            // plus something in the last k bases
            for x in own.iter().rev().take(k).step_by(3) {
                set.insert(*x);
            }
        }
        3 => {
            kind = "adjacent";
            if !own.is_empty() {
                let p = rng.usize(0, own.len() - 1);
                for x in own.iter().skip(p).take(rng.usize(2, 5)) {
                    set.insert(*x);
                }
            }
        }
        4 => {
            kind = "foreign";
            for _ in 0..rng.usize(1, 5) {
                set.insert(rng.next());
            }
            if let Some(x) = own.first() {
                if rng.chance(1, 2) {
                    set.insert(*x);
                }
            }
        }
        _ => {
            kind = "subset";
            let p = *rng.pick(&[2u64, 5, 10, 30]);
            for x in &own {
                if rng.below(100) < p {
                    set.insert(*x);
                }
            }
        }
    }
    (contig, k, set, kind)
}

fn all_strings(alpha: &[u8], len: usize, f: &mut dyn FnMut(&[u8])) {
    let mut idx = vec![0usize; len];
    let mut s = vec![alpha[0]; len];
    loop {
        f(&s);
        let mut p = len;
        loop {
            if p == 0 {
                return;
            }
            p -= 1;
            idx[p] += 1;
            if idx[p] < alpha.len() {
                s[p] = alpha[idx[p]];
                break;
            }
            idx[p] = 0;
            s[p] = alpha[0];
        }
    }
}

fn run_one(rep: &mut Report, args: &Args, contig: &[u8], k: usize, set: &AHashSet<u64>, kind: &str, case: &str) {
    for fname in ["split_at_splitters_with_size", "split_at_splitters"] {
        rep.evaluations += 1;
        let r = std::panic::catch_unwind(std::panic::AssertUnwindSafe(|| {
            if fname == "split_at_splitters" {
                split_at_splitters(&contig.to_vec(), set, k)
            } else {
                split_at_splitters_with_size(&contig.to_vec(), set, k, 0)
            }
        }));
        let segs = match r {
            Ok(s) => s,
            Err(p) => {
                let msg = p.downcast_ref::<String>().cloned().or_else(|| p.downcast_ref::<&str>().map(|s| s.to_string())).unwrap_or_default();
                rep.violation(
                    &format!("C10:{}:panic", fname),
                    jobj(&[
                        ("what", jstr(&format!("panic: {} panicked (k={}, build with {}): {}", fname, k, if cfg!(debug_assertions) { "overflow checks" } else { "optimisations" }, msg))),
                        ("workload", jstr("vq seg")),
                        ("function", jstr(fname)),
                        ("seed", args.seed.to_string()),
                        ("case", jstr(case)),
                        ("k", k.to_string()),
                        ("contig", jstr(&vcommon::clip(&codes_to_string(contig), 1000))),
                    ]),
                );
                continue;
            }
        };
        match check_tiling(contig, k, set, &segs) {
            Ok((n, z)) => {
                rep.count(&format!("cases_{}", kind), 1);
                rep.count(if n == 1 { "one_segment" } else if n <= 3 { "two_or_three_segments" } else { "four_or_more_segments" }, 1);
                rep.count("zero_contribution_tails", z);
                if n >= 2 {
                    rep.nontrivial(fnv(contig) ^ (k as u64) << 56 ^ fnv(fname.as_bytes()) ^ set.len() as u64);
                }
                if rep.samples.len() < 3 && n >= 3 && contig.len() < 100 {
                    let lens: Vec<usize> = segs.iter().map(|s| s.data.len()).collect();
                    rep.sample(jobj(&[
                        ("function", jstr(fname)),
                        ("k", k.to_string()),
                        ("contig", jstr(&codes_to_string(contig))),
                        ("splitters_in_set", set.len().to_string()),
                        ("segment_lengths", vcommon::jnums(&lens)),
                    ]));
                }
            }
            Err(w) => {
                let lens: Vec<usize> = segs.iter().map(|s| s.data.len()).collect();
                let mut sp: Vec<u64> = set.iter().copied().collect();
                sp.sort();
                rep.violation(
                    &format!("C10:{}:{}", fname, w.split(':').next().unwrap_or("")),
                    jobj(&[
                        ("what", jstr(&w)),
                        ("workload", jstr("vq seg")),
                        ("function", jstr(fname)),
                        ("seed", args.seed.to_string()),
                        ("case", jstr(case)),
                        ("k", k.to_string()),
                        ("contig", jstr(&vcommon::clip(&codes_to_string(contig), 1000))),
                        ("splitters", vcommon::jnums(&sp.iter().take(50).collect::<Vec<_>>())),
                        ("segment_lengths", vcommon::jnums(&lens)),
                    ]),
                );
            }
        }
    }
}

pub fn run(args: &Args, rep: &mut Report) {
    std::panic::set_hook(Box::new(|_| {}));
    let miri = cfg!(miri);
    let t = args.tier_thorough;
    if args.case.as_deref() == Some("direct") {
        let contig = vcommon::string_to_codes(args.get("contig").unwrap_or(""));
        let k = args.get_u64("k", 3) as usize;
        let set: AHashSet<u64> = args.get("splitters").unwrap_or("").split(',').filter_map(|x| x.parse().ok()).collect();
        run_one(rep, args, &contig, k, &set, "direct", "direct");
        return;
    }
    if let Some(c) = &args.case {
        if let Some(i) = c.strip_prefix("rand:").and_then(|s| s.parse::<u64>().ok()) {
            let mut rng = Rng::derive(args.seed, 0xC10, i);
            let (contig, k, set, kind) = gen_case(&mut rng, miri);
            run_one(rep, args, &contig, k, &set, kind, c);
        }
        return;
    }
    // exhaustive: all contigs of length <= L over {A,C,N} with k in {2,3}, splitter sets: dense and each single k-mer
    let lmax = if miri { 3 } else if t { 9 } else { 7 };
    let mut idx = 0u64;
    let mut exh = 0u64;
    for len in 0..=lmax {
        let mut first = true;
        all_strings(&[0, 1, 4], len.max(1), &mut |s| {
            let s: &[u8] = if len == 0 { &[] } else { s };
            if len == 0 && !first {
                return;
            }
            first = false;
            idx += 1;
            if !args.mine(idx) {
                return;
            }
            for k in [2usize, 3] {
                let own = oracle::canonical_kmers(s, k);
                let dense: AHashSet<u64> = own.iter().copied().collect();
                run_one(rep, args, s, k, &dense, "exh-dense", "exhaustive");
                exh += 2;
                let uniq: std::collections::BTreeSet<u64> = own.iter().copied().collect();
                for x in uniq {
                    let mut one = AHashSet::new();
                    one.insert(x);
                    run_one(rep, args, s, k, &one, "exh-single", "exhaustive");
                    exh += 2;
                }
                run_one(rep, args, s, k, &AHashSet::new(), "exh-empty", "exhaustive");
                exh += 2;
            }
        });
    }
    rep.distinct_by_construction += exh;
    rep.count("exhaustive_cases", exh);
    let n = args.get_u64("n", if miri { 10 } else if t { 10_000_000 } else { 100_000 });
    for i in 0..n {
        if !args.mine(i) {
            continue;
        }
        let mut rng = Rng::derive(args.seed, 0xC10, i);
        let (contig, k, set, kind) = gen_case(&mut rng, miri);
        run_one(rep, args, &contig, k, &set, kind, &format!("rand:{}", i));
    }
}
