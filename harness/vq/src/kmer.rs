//! C20: the sliding canonical k-mer of ragc equals a from-scratch computation for every window.

use crate::oracle;
use ragc_core::kmer::{canonical_kmer, reverse_complement_kmer, Kmer, KmerMode};
use ragc_core::kmer_extract::enumerate_kmers;
use vcommon::{codes_to_string, fnv, jobj, jstr, Args, Report, Rng};

fn viol(rep: &mut Report, args: &Args, what: &str, k: usize, seq: &[u8], pos: usize, case: &str) {
    rep.violation(
        &format!("C20:{}", what.split(':').next().unwrap_or(what)),
        jobj(&[
            ("what", jstr(what)),
            ("workload", jstr("vq kmer")),
            ("seed", args.seed.to_string()),
            ("case", jstr(case)),
            ("k", k.to_string()),
            ("window_end", pos.to_string()),
            ("sequence", jstr(&vcommon::clip(&codes_to_string(seq), 600))),
        ]),
    );
}

/// Slide over `seq`, compare every full window with the oracle. Returns (windows, palindromes, resets).
fn check_seq(rep: &mut Report, args: &Args, k: usize, seq: &[u8], case: &str) -> (u64, u64, u64) {
    // a panic inside the k-mer code (e.g. a shift overflow at k = 32 in a build with overflow
    // checks) is a violation, not a harness crash
    let mut tmp = Report::new();
    let r = std::panic::catch_unwind(std::panic::AssertUnwindSafe(|| check_seq_inner(&mut tmp, args, k, seq, case)));
    match r {
        Ok(x) => {
            rep.merge(tmp);
            x
        }
        Err(p) => {
            let msg = p.downcast_ref::<String>().cloned().or_else(|| p.downcast_ref::<&str>().map(|s| s.to_string())).unwrap_or_default();
            viol(rep, args, &format!("panic: k-mer code panicked (build with {}): {}", if cfg!(debug_assertions) { "overflow checks" } else { "optimisations" }, msg), k, seq, 0, case);
            (0, 0, 0)
        }
    }
}

fn check_seq_inner(rep: &mut Report, args: &Args, k: usize, seq: &[u8], case: &str) -> (u64, u64, u64) {
    let mut km = Kmer::new(k as u32, KmerMode::Canonical);
    let mut windows = 0u64;
    let mut pal = 0u64;
    let mut resets = 0u64;
    let mut run = 0usize; // length of the current ACGT run
    let mut listed: Vec<u64> = Vec::new();
    for (i, &b) in seq.iter().enumerate() {
        if b > 3 {
            km.reset();
            if run > 0 {
                resets += 1;
            }
            run = 0;
            continue;
        }
        km.insert(b as u64);
        run += 1;
        let full_expected = run >= k;
        if km.is_full() != full_expected {
            viol(rep, args, "window-fill: is_full() disagrees with the number of bases since the last restart", k, seq, i + 1, case);
            return (windows, pal, resets);
        }
        if !full_expected {
            continue;
        }
        windows += 1;
        let win = &seq[i + 1 - k..=i];
        let (f, r, c, d) = oracle::kmer_values(win);
        if f == r {
            pal += 1;
        }
        listed.push(c);
        if km.data_dir() != f {
            viol(rep, args, "forward: sliding forward packing differs from the from-scratch value", k, seq, i + 1, case);
            return (windows, pal, resets);
        }
        if km.data_rc() != r {
            viol(rep, args, "revcomp: sliding reverse-complement packing differs from the from-scratch value", k, seq, i + 1, case);
            return (windows, pal, resets);
        }
        if km.data() != c || km.data_canonical() != c {
            viol(rep, args, "canonical: canonical value is not min(forward, reverse complement)", k, seq, i + 1, case);
            return (windows, pal, resets);
        }
        if km.is_dir_oriented() != d {
            viol(rep, args, "direction: direction flag is not (forward <= reverse complement)", k, seq, i + 1, case);
            return (windows, pal, resets);
        }
        // strand symmetry: canonical value of the reverse-complemented window
        let rcw = oracle::revcomp_window(win);
        let mut km2 = Kmer::new(k as u32, KmerMode::Canonical);
        for &x in &rcw {
            km2.insert(x as u64);
        }
        if km2.data() != c {
            viol(rep, args, "strand: canonical value of the reverse-complemented window differs", k, seq, i + 1, case);
            return (windows, pal, resets);
        }
        // packed reverse complement: equals oracle, involution
        let rk = reverse_complement_kmer(f, k as u32);
        if rk != r {
            viol(rep, args, "rc-packed: reverse_complement_kmer differs from the from-scratch value", k, seq, i + 1, case);
            return (windows, pal, resets);
        }
        if reverse_complement_kmer(rk, k as u32) != f {
            viol(rep, args, "rc-involution: reverse complement applied twice is not the identity", k, seq, i + 1, case);
            return (windows, pal, resets);
        }
        if canonical_kmer(f, k as u32) != c {
            viol(rep, args, "canonical-packed: canonical_kmer differs from the from-scratch value", k, seq, i + 1, case);
            return (windows, pal, resets);
        }
    }
    // the enumeration API sees exactly the same windows (a non-ACGT symbol restarts the window)
    let en = enumerate_kmers(&seq.to_vec(), k);
    let expect = oracle::canonical_kmers(seq, k);
    if en != expect || listed != expect {
        viol(rep, args, "enumerate: enumerate_kmers differs from the from-scratch list of windows", k, seq, seq.len(), case);
    }
    (windows, pal, resets)
}

fn all_strings(alpha: u8, len: usize, f: &mut dyn FnMut(&[u8])) {
    let mut s = vec![0u8; len];
    loop {
        f(&s);
        let mut p = len;
        loop {
            if p == 0 {
                return;
            }
            p -= 1;
            s[p] += 1;
            if s[p] < alpha {
                break;
            }
            s[p] = 0;
        }
    }
}

pub fn run(args: &Args, rep: &mut Report) {
    std::panic::set_hook(Box::new(|_| {}));
    let miri = cfg!(miri);
    let t = args.tier_thorough;
    let mut windows = 0u64;
    let mut pal = 0u64;
    let mut resets = 0u64;
    let mut per_k = vec![0u64; 33];
    if args.case.as_deref() == Some("direct") {
        let seq = vcommon::string_to_codes(args.get("seq").unwrap_or(""));
        let k = args.get_u64("k", 3) as usize;
        check_seq(rep, args, k, &seq, "direct");
        return;
    }
    if let Some(c) = &args.case {
        if let Some(i) = c.strip_prefix("rand:").and_then(|s| s.parse::<u64>().ok()) {
            random_case(args, rep, i, &mut per_k, &mut windows, &mut pal, &mut resets);
        }
        return;
    }
    // (1) all 4^k windows for k <= kmax_all
    let kmax_all = if miri { 2 } else if t { 9 } else { 8 };
    let mut idx = 0u64;
    let mut exh = 0u64;
    for k in 1..=kmax_all {
        all_strings(4, k, &mut |w| {
            idx += 1;
            if args.mine(idx) {
                exh += 1;
                let (a, b, c) = check_seq(rep, args, k, w, "all-windows");
                windows += a;
                per_k[k] += a;
                pal += b;
                resets += c;
            }
        });
    }
    // (2) all sequences of length <= k+3 over {A,C,G,T,N} for k <= kmax_seq
    let kmax_seq = if miri { 1 } else if t { 5 } else { 4 };
    for k in 1..=kmax_seq {
        for len in 0..=(if miri { k + 2 } else { k + 3 }) {
            all_strings(5, len, &mut |s| {
                idx += 1;
                if args.mine(idx) {
                    exh += 1;
                    let (a, b, c) = check_seq(rep, args, k, s, "all-sequences");
                    windows += a;
                    per_k[k] += a;
                    pal += b;
                    resets += c;
                }
            });
        }
    }
    rep.distinct_by_construction += exh;
    rep.count("exhaustive_sequences", exh);
    // (3) random sequences for every k in 1..=32
    let n = args.get_u64("n", if miri { 8 } else if t { 3_000_000 } else { 12_000 });
    for i in 0..n {
        if !args.mine(i) {
            continue;
        }
        random_case(args, rep, i, &mut per_k, &mut windows, &mut pal, &mut resets);
    }
    rep.evaluations += windows;
    rep.count("windows", windows);
    rep.count("palindromic_windows", pal);
    rep.count("window_restarts", resets);
    for (k, &c) in per_k.iter().enumerate() {
        if c > 0 {
            rep.count(&format!("windows_k{:02}", k), c);
        }
    }
    let (f, r, c, d) = oracle::kmer_values(&[0, 1, 2, 3, 3]);
    rep.sample(jobj(&[
        ("window", jstr("ACGTT")),
        ("forward", format!("\"{:016x}\"", f)),
        ("revcomp", format!("\"{:016x}\"", r)),
        ("canonical", format!("\"{:016x}\"", c)),
        ("is_dir", d.to_string()),
    ]));
}

fn random_case(args: &Args, rep: &mut Report, i: u64, per_k: &mut [u64], windows: &mut u64, pal: &mut u64, resets: &mut u64) {
    let miri = cfg!(miri);
    let mut rng = Rng::derive(args.seed, 0xC20, i);
    let k = if rng.chance(1, 4) { *rng.pick(&[1usize, 2, 31, 32]) } else { rng.usize(1, 32) };
    let len = rng.usize(0, if miri { 40 } else { 200 });
    let n_rate = *rng.pick(&[0u64, 0, 1, 5, 20]);
    let mut seq: Vec<u8> = (0..len)
        .map(|_| if rng.below(100) < n_rate { *rng.pick(&[4u8, 5, 14, 30]) } else { rng.below(4) as u8 })
        .collect();
    // plant a reverse-complement palindrome now and then (even k only can be palindromic)
    if rng.chance(1, 6) && len >= k && k % 2 == 0 {
        let p = rng.usize(0, len - k);
        for j in 0..k / 2 {
            seq[p + k - 1 - j] = 3 - seq[p + j].min(3);
            seq[p + j] = seq[p + j].min(3);
        }
    }
    // low-complexity runs exercise min() ties and the direction flag
    if rng.chance(1, 8) && len > 0 {
        let b = rng.below(4) as u8;
        let a = rng.usize(0, len - 1);
        for x in seq.iter_mut().skip(a).take(40) {
            *x = b;
        }
    }
    let (a, b, c) = check_seq(rep, args, k, &seq, &format!("rand:{}", i));
    *windows += a;
    per_k[k] += a;
    *pal += b;
    *resets += c;
    if a > 0 {
        rep.nontrivial(fnv(&seq) ^ ((k as u64) << 58));
    }
}
