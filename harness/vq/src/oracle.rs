//! From-scratch reference implementations. Nothing in here shares code with ragc.

/// Forward packing of a window of 2-bit bases: base i occupies bits (63-2i, 62-2i), i.e. the
/// k-mer is left-aligned in the 64-bit word. Computed through a u128 positional value.
pub fn pack_forward(win: &[u8]) -> u64 {
    let k = win.len();
    assert!((1..=32).contains(&k));
    let mut v: u128 = 0;
    for &b in win {
        assert!(b < 4);
        v = v * 4 + b as u128;
    }
    // v has 2k significant bits; move them to the top of a 64-bit word
    let shifted: u128 = v << (64 - 2 * k as u32);
    (shifted & 0xFFFF_FFFF_FFFF_FFFF) as u64
}

pub fn revcomp_window(win: &[u8]) -> Vec<u8> {
    let mut r: Vec<u8> = win.to_vec();
    r.reverse();
    for b in r.iter_mut() {
        *b = match *b {
            0 => 3,
            1 => 2,
            2 => 1,
            3 => 0,
            x => x,
        };
    }
    r
}

/// (forward, reverse-complement, canonical, is_dir)
pub fn kmer_values(win: &[u8]) -> (u64, u64, u64, bool) {
    let f = pack_forward(win);
    let r = pack_forward(&revcomp_window(win));
    (f, r, if f <= r { f } else { r }, f <= r)
}

/// All canonical k-mers of a sequence, in order, window restarted by any symbol > 3
pub fn canonical_kmers(seq: &[u8], k: usize) -> Vec<u64> {
    let mut out = Vec::new();
    if seq.len() < k {
        return out;
    }
    for i in 0..=(seq.len() - k) {
        let w = &seq[i..i + k];
        if w.iter().all(|&b| b < 4) {
            out.push(kmer_values(w).2);
        }
    }
    out
}

/// Canonical k-mer of the window ending at `end` (exclusive), if it is all ACGT
pub fn canonical_at(seq: &[u8], end: usize, k: usize) -> Option<(u64, bool)> {
    if end < k {
        return None;
    }
    let w = &seq[end - k..end];
    if w.iter().all(|&b| b < 4) {
        let (_, _, c, d) = kmer_values(w);
        Some((c, d))
    } else {
        None
    }
}
