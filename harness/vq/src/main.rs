//! vq: workloads over the pure-Rust parts of ragc (no ZSTD on the path), so that every one of
//! them runs natively at scale *and* under Miri on small slices:
//!   queue   (C06)  MemoryBoundedQueue histories checked against a sequential model
//!   lz      (C09)  LZ-diff encode/decode
//!   tuple   (C12)  tuple packing bijection
//!   kmer    (C20)  canonical k-mer arithmetic against a from-scratch oracle
//!   seg     (C10)  segmentation tiling
//!   names   (C03)  contig-name and descriptor codecs (through the cfg(ragc_verif) wrappers)
//!   archive (C13)  archive container against a sequential model
mod archive;
mod kmer;
mod lz;
mod names;
mod oracle;
mod queue;
mod seg;
mod tuple;

use vcommon::{Args, Report};

fn main() {
    let argv: Vec<String> = std::env::args().collect();
    let args = Args::parse(&argv);
    let mut rep = Report::new();
    match args.workload.as_str() {
        "queue" => queue::run(&args, &mut rep),
        "lz" => lz::run(&args, &mut rep),
        "tuple" => tuple::run(&args, &mut rep),
        "kmer" => kmer::run(&args, &mut rep),
        "seg" => seg::run(&args, &mut rep),
        "names" => names::run(&args, &mut rep),
        "archive" => archive::run(&args, &mut rep),
        other => {
            eprintln!("vq: unknown workload {:?}", other);
            std::process::exit(2);
        }
    }
    args.write_out(&rep);
}
