//! Shared infrastructure for the verification harness: seeded RNG, a tiny JSON writer and the
//! per-shard report format that the python driver merges into evidence files.

use std::collections::{BTreeMap, HashSet};
use std::fmt::Write as _;

// ---------------------------------------------------------------------------------------------
// RNG (splitmix64 seeding + xorshift64*); deterministic, no dependencies, works under Miri
// ---------------------------------------------------------------------------------------------

#[derive(Clone, Debug)]
pub struct Rng(pub u64);

pub fn splitmix(x: &mut u64) -> u64 {
    *x = x.wrapping_add(0x9E37_79B9_7F4A_7C15);
    let mut z = *x;
    z = (z ^ (z >> 30)).wrapping_mul(0xBF58_476D_1CE4_E5B9);
    z = (z ^ (z >> 27)).wrapping_mul(0x94D0_49BB_1331_11EB);
    z ^ (z >> 31)
}

impl Rng {
    pub fn new(seed: u64) -> Self {
        let mut s = seed;
        let v = splitmix(&mut s) | 1;
        Rng(v)
    }
    /// Derive an independent stream from (seed, a, b)
    pub fn derive(seed: u64, a: u64, b: u64) -> Self {
        let mut s = seed ^ a.wrapping_mul(0xA24B_AED4_963E_E407) ^ b.wrapping_mul(0x9FB2_1C65_1E98_DF25);
        let _ = splitmix(&mut s);
        Rng::new(splitmix(&mut s))
    }
    #[inline]
    pub fn next(&mut self) -> u64 {
        let mut x = self.0;
        x ^= x >> 12;
        x ^= x << 25;
        x ^= x >> 27;
        self.0 = x;
        x.wrapping_mul(0x2545_F491_4F6C_DD1D)
    }
    /// uniform in 0..n (n > 0)
    #[inline]
    pub fn below(&mut self, n: u64) -> u64 {
        debug_assert!(n > 0);
        ((self.next() >> 11) as u128 * n as u128 >> 53) as u64
    }
    #[inline]
    pub fn range(&mut self, lo: u64, hi_incl: u64) -> u64 {
        lo + self.below(hi_incl - lo + 1)
    }
    #[inline]
    pub fn usize(&mut self, lo: usize, hi_incl: usize) -> usize {
        self.range(lo as u64, hi_incl as u64) as usize
    }
    #[inline]
    pub fn chance(&mut self, num: u64, den: u64) -> bool {
        self.below(den) < num
    }
    #[inline]
    pub fn f64(&mut self) -> f64 {
        (self.next() >> 11) as f64 / (1u64 << 53) as f64
    }
    pub fn pick<'a, T>(&mut self, xs: &'a [T]) -> &'a T {
        &xs[self.below(xs.len() as u64) as usize]
    }
    pub fn shuffle<T>(&mut self, xs: &mut [T]) {
        for i in (1..xs.len()).rev() {
            let j = self.below(i as u64 + 1) as usize;
            xs.swap(i, j);
        }
    }
}

/// FNV-1a 64 over bytes: cheap digest for "distinct case" counting and interleaving signatures
pub fn fnv(bytes: &[u8]) -> u64 {
    let mut h = 0xcbf2_9ce4_8422_2325u64;
    for &b in bytes {
        h ^= b as u64;
        h = h.wrapping_mul(0x0000_0100_0000_01B3);
    }
    h
}

pub fn fnv_mix(h: u64, v: u64) -> u64 {
    let mut h = h;
    for i in 0..8 {
        h ^= (v >> (8 * i)) & 0xff;
        h = h.wrapping_mul(0x0000_0100_0000_01B3);
    }
    h
}

// ---------------------------------------------------------------------------------------------
// JSON (writer only)
// ---------------------------------------------------------------------------------------------

pub fn jstr(s: &str) -> String {
    let mut o = String::with_capacity(s.len() + 2);
    o.push('"');
    for c in s.chars() {
        match c {
            '"' => o.push_str("\\\""),
            '\\' => o.push_str("\\\\"),
            '\n' => o.push_str("\\n"),
            '\r' => o.push_str("\\r"),
            '\t' => o.push_str("\\t"),
            c if (c as u32) < 0x20 => {
                let _ = write!(o, "\\u{:04x}", c as u32);
            }
            c => o.push(c),
        }
    }
    o.push('"');
    o
}

pub fn jbytes(b: &[u8]) -> String {
    jstr(&String::from_utf8_lossy(b))
}

/// JSON object from (key, already-encoded value) pairs
pub fn jobj(fields: &[(&str, String)]) -> String {
    let mut o = String::from("{");
    for (i, (k, v)) in fields.iter().enumerate() {
        if i > 0 {
            o.push(',');
        }
        o.push_str(&jstr(k));
        o.push(':');
        o.push_str(v);
    }
    o.push('}');
    o
}

pub fn jarr(items: &[String]) -> String {
    let mut o = String::from("[");
    for (i, v) in items.iter().enumerate() {
        if i > 0 {
            o.push(',');
        }
        o.push_str(v);
    }
    o.push(']');
    o
}

pub fn jnums<T: std::fmt::Display>(items: &[T]) -> String {
    let v: Vec<String> = items.iter().map(|x| x.to_string()).collect();
    jarr(&v)
}

/// Bases (codes) as a short printable string for samples / replays
pub fn codes_to_string(codes: &[u8]) -> String {
    const T: &[u8; 16] = b"ACGTNRYSWKMBDHVU";
    codes
        .iter()
        .map(|&c| if c < 16 { T[c as usize] as char } else if c == 30 { '?' } else { '#' })
        .collect()
}

/// Inverse of `codes_to_string` (used by direct replays)
pub fn string_to_codes(s: &str) -> Vec<u8> {
    const T: &[u8; 16] = b"ACGTNRYSWKMBDHVU";
    s.bytes()
        .map(|c| match T.iter().position(|&t| t == c) {
            Some(p) => p as u8,
            None => {
                if c == b'?' {
                    30
                } else {
                    31
                }
            }
        })
        .collect()
}

pub fn clip(s: &str, n: usize) -> String {
    if s.len() <= n {
        s.to_string()
    } else {
        let mut end = n;
        while !s.is_char_boundary(end) {
            end -= 1;
        }
        format!("{}...[{} more]", &s[..end], s.len() - end)
    }
}

// ---------------------------------------------------------------------------------------------
// Report
// ---------------------------------------------------------------------------------------------

pub const DIGEST_CAP: usize = 200_000;

#[derive(Default)]
pub struct Report {
    pub evaluations: u64,
    /// digests of distinct non-trivial cases (capped; `distinct_overflow` counts the rest, which
    /// are NOT added to the distinct number)
    pub digests: HashSet<u64>,
    pub distinct_overflow: u64,
    /// distinct non-trivial cases that are distinct by construction (exhaustive enumerations)
    pub distinct_by_construction: u64,
    pub counters: BTreeMap<String, u64>,
    /// counters merged by max instead of sum
    pub maxima: BTreeMap<String, u64>,
    pub samples: Vec<String>,
    pub violations: Vec<(String, String)>, // (signature, JSON detail incl. replay info)
    pub inconclusive: Vec<String>,
    pub notes: Vec<String>,
    pub exhaustive: Option<bool>,
    /// free-form per-case records (JSON values) that the driver post-processes (C18 differential)
    pub records: Vec<String>,
}

impl Report {
    pub fn new() -> Self {
        Self::default()
    }
    pub fn count(&mut self, k: &str, n: u64) {
        *self.counters.entry(k.to_string()).or_insert(0) += n;
    }
    pub fn max(&mut self, k: &str, n: u64) {
        let e = self.maxima.entry(k.to_string()).or_insert(0);
        if n > *e {
            *e = n;
        }
    }
    pub fn nontrivial(&mut self, digest: u64) {
        if self.digests.len() < DIGEST_CAP {
            self.digests.insert(digest);
        } else if !self.digests.contains(&digest) {
            self.distinct_overflow += 1;
        }
    }
    pub fn sample(&mut self, s: String) {
        if self.samples.len() < 6 {
            self.samples.push(s);
        }
    }
    pub fn violation(&mut self, signature: &str, detail_json: String) {
        if self.violations.len() < 20 {
            self.violations.push((signature.to_string(), detail_json));
        } else {
            self.count("violations_not_listed", 1);
        }
    }
    pub fn inconclusive(&mut self, why: String) {
        if self.inconclusive.len() < 20 {
            self.inconclusive.push(why);
        }
        self.count("inconclusive_cases", 1);
    }
    pub fn merge(&mut self, o: Report) {
        self.evaluations += o.evaluations;
        for d in o.digests {
            self.nontrivial(d);
        }
        self.distinct_overflow += o.distinct_overflow;
        self.distinct_by_construction += o.distinct_by_construction;
        for (k, v) in o.counters {
            *self.counters.entry(k).or_insert(0) += v;
        }
        for (k, v) in o.maxima {
            self.max(&k, v);
        }
        for s in o.samples {
            self.sample(s);
        }
        for (s, d) in o.violations {
            self.violation(&s, d);
        }
        for i in o.inconclusive {
            if self.inconclusive.len() < 20 {
                self.inconclusive.push(i);
            }
        }
        self.notes.extend(o.notes);
        self.records.extend(o.records);
        self.exhaustive = match (self.exhaustive, o.exhaustive) {
            (None, x) => x,
            (x, None) => x,
            (Some(a), Some(b)) => Some(a && b),
        };
    }
    pub fn to_json(&self) -> String {
        let counters: Vec<(String, String)> = self
            .counters
            .iter()
            .map(|(k, v)| (k.clone(), v.to_string()))
            .collect();
        let maxima: Vec<(String, String)> = self
            .maxima
            .iter()
            .map(|(k, v)| (k.clone(), v.to_string()))
            .collect();
        let cref: Vec<(&str, String)> = counters.iter().map(|(k, v)| (k.as_str(), v.clone())).collect();
        let mref: Vec<(&str, String)> = maxima.iter().map(|(k, v)| (k.as_str(), v.clone())).collect();
        let digests: Vec<String> = self.digests.iter().map(|d| format!("\"{:016x}\"", d)).collect();
        let viol: Vec<String> = self
            .violations
            .iter()
            .map(|(s, d)| jobj(&[("signature", jstr(s)), ("detail", d.clone())]))
            .collect();
        let inc: Vec<String> = self.inconclusive.iter().map(|s| jstr(s)).collect();
        let notes: Vec<String> = self.notes.iter().map(|s| jstr(s)).collect();
        jobj(&[
            ("evaluations", self.evaluations.to_string()),
            ("digests", jarr(&digests)),
            ("distinct_overflow", self.distinct_overflow.to_string()),
            ("distinct_by_construction", self.distinct_by_construction.to_string()),
            ("counters", jobj(&cref)),
            ("maxima", jobj(&mref)),
            ("samples", jarr(&self.samples)),
            ("violations", jarr(&viol)),
            ("inconclusive", jarr(&inc)),
            ("notes", jarr(&notes)),
            ("records", jarr(&self.records)),
            (
                "exhaustive",
                match self.exhaustive {
                    None => "null".to_string(),
                    Some(b) => b.to_string(),
                },
            ),
        ])
    }
}

/// Command line shared by `vh` and `vq`:
/// `<prog> <workload> --tier quick|thorough --seed N --shard i --nshards n --out FILE [--case K] [key=value ...]`
#[derive(Clone, Debug)]
pub struct Args {
    pub workload: String,
    pub tier_thorough: bool,
    pub seed: u64,
    pub shard: u64,
    pub nshards: u64,
    pub out: Option<String>,
    /// replay exactly this case (workload-specific meaning)
    pub case: Option<String>,
    pub kv: BTreeMap<String, String>,
    /// case indices to leave out (cases that crashed the process in an earlier attempt)
    pub skip: Vec<u64>,
}

impl Args {
    pub fn parse(argv: &[String]) -> Args {
        let mut a = Args {
            workload: argv.get(1).cloned().unwrap_or_default(),
            tier_thorough: false,
            seed: 1,
            shard: 0,
            nshards: 1,
            out: None,
            case: None,
            kv: BTreeMap::new(),
            skip: Vec::new(),
        };
        let mut i = 2;
        while i < argv.len() {
            let s = &argv[i];
            let val = |i: usize| argv.get(i + 1).cloned().unwrap_or_default();
            match s.as_str() {
                "--tier" => {
                    a.tier_thorough = val(i) == "thorough";
                    i += 1;
                }
                "--seed" => {
                    a.seed = val(i).parse().unwrap_or(1);
                    i += 1;
                }
                "--shard" => {
                    a.shard = val(i).parse().unwrap_or(0);
                    i += 1;
                }
                "--nshards" => {
                    a.nshards = val(i).parse().unwrap_or(1).max(1);
                    i += 1;
                }
                "--out" => {
                    a.out = Some(val(i));
                    i += 1;
                }
                "--case" => {
                    a.case = Some(val(i));
                    i += 1;
                }
                other => {
                    if let Some((k, v)) = other.split_once('=') {
                        if k == "skip" {
                            a.skip = v.split(',').filter_map(|x| x.parse().ok()).collect();
                        }
                        a.kv.insert(k.to_string(), v.to_string());
                    }
                }
            }
            i += 1;
        }
        a
    }
    pub fn get(&self, k: &str) -> Option<&str> {
        self.kv.get(k).map(|s| s.as_str())
    }
    pub fn get_u64(&self, k: &str, default: u64) -> u64 {
        self.get(k).and_then(|s| s.parse().ok()).unwrap_or(default)
    }
    /// Does this shard own case index `i`?
    pub fn mine(&self, i: u64) -> bool {
        i % self.nshards == self.shard && !self.skip.contains(&i)
    }
    pub fn write_out(&self, rep: &Report) {
        let j = rep.to_json();
        match &self.out {
            Some(p) => {
                let tmp = format!("{}.part", p);
                std::fs::write(&tmp, j).expect("write report");
                std::fs::rename(&tmp, p).expect("rename report");
            }
            None => println!("{}", j),
        }
    }
}
