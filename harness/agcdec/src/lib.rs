pub fn placeholder() {}
