//! agcdec: an independent reader for AGC v3 archives, written from the format rules only.
//! It shares no code with ragc (the only dependency is libzstd through the `zstd` crate) and
//! hard-codes every constant of the format. While decoding it checks the addressing rules a
//! C++ AGC reader relies on and reports any breach as an error.

use std::collections::{BTreeMap, HashMap};

pub const PACK: usize = 50; // entries per pack
pub const RAW_GROUPS: u32 = 16; // groups 0..15 hold raw segments
pub const SEP: u8 = 0xFF; // entry separator inside a pack
pub const B64: &[u8; 64] = b"0123456789ABCDEFGHIJKLMNOPQRSTUVWXYZabcdefghijklmnopqrstuvwxyz_#";

#[derive(Default, Debug, Clone)]
pub struct Stats {
    pub streams: u64,
    pub parts: u64,
    pub lz_groups: u64,
    pub raw_groups_used: u64,
    pub refs_tuple_packed: u64,
    pub refs_plain_zstd: u64,
    pub refs_stored_raw: u64,
    pub packs_zstd: u64,
    pub packs_stored_raw: u64,
    pub full_packs: u64,
    pub placeholder_packs: u64,
    pub full_raw_group_packs: u64,
    pub segments: u64,
    pub segments_ref: u64,
    pub segments_delta: u64,
    pub segments_raw: u64,
    pub segments_rc: u64,
    pub lz_literals: u64,
    pub lz_bangs: u64,
    pub lz_nruns: u64,
    pub lz_matches: u64,
    pub lz_matches_to_end: u64,
    pub metadata_batches: u64,
    pub tuple_width: [u64; 5],
}

#[derive(Debug, Clone, PartialEq)]
pub struct Seg {
    pub group: u32,
    pub in_group: u32,
    pub rc: bool,
    pub raw_len: u32,
}

pub struct Decoded {
    pub k: u32,
    pub min_match: u32,
    pub segment_size: u32,
    /// samples in archive order; contigs in order: (name, bases as codes, descriptors)
    pub samples: Vec<(String, Vec<(String, Vec<u8>, Vec<Seg>)>)>,
    pub stats: Stats,
    pub directory: Vec<(String, usize)>, // stream name, number of parts
}

type R<T> = Result<T, String>;

fn err<T>(s: impl Into<String>) -> R<T> {
    Err(s.into())
}

// ---- container ----------------------------------------------------------------------------

struct Part {
    meta_off: usize,
    size: usize,
}
struct Stream {
    name: String,
    parts: Vec<Part>,
}

/// length-prefixed big-endian integer: one byte n (0..8), then n bytes, most significant first
fn lp_int(buf: &[u8], pos: &mut usize) -> R<u64> {
    let n = *buf.get(*pos).ok_or("directory: integer runs past the end")? as usize;
    *pos += 1;
    if n > 8 {
        return err(format!("directory: integer with {} bytes", n));
    }
    let mut v: u64 = 0;
    for _ in 0..n {
        let b = *buf.get(*pos).ok_or("directory: integer runs past the end")?;
        *pos += 1;
        v = (v << 8) | b as u64;
    }
    Ok(v)
}

fn parse_directory(file: &[u8]) -> R<Vec<Stream>> {
    if file.len() < 8 {
        return err("container: file shorter than the 8-byte footer length");
    }
    let flen = u64::from_le_bytes(file[file.len() - 8..].try_into().unwrap());
    if flen > (file.len() - 8) as u64 {
        return err("container: footer length larger than the file");
    }
    let fstart = file.len() - 8 - flen as usize;
    let foot = &file[fstart..file.len() - 8];
    let mut pos = 0usize;
    let n = lp_int(foot, &mut pos)?;
    let mut streams = Vec::new();
    let mut spans: Vec<(usize, usize)> = Vec::new();
    for _ in 0..n {
        let end = foot[pos..].iter().position(|&b| b == 0).ok_or("directory: unterminated stream name")?;
        let name = String::from_utf8(foot[pos..pos + end].to_vec()).map_err(|_| "directory: stream name is not UTF-8")?;
        pos += end + 1;
        let nparts = lp_int(foot, &mut pos)?;
        let _raw = lp_int(foot, &mut pos)?;
        let mut parts = Vec::new();
        for _ in 0..nparts {
            let off = lp_int(foot, &mut pos)? as usize;
            let size = lp_int(foot, &mut pos)? as usize;
            // a part is: length-prefixed metadata integer, then `size` data bytes
            if off >= fstart {
                return err(format!("directory: part of {:?} starts at {} beyond the data area ({})", name, off, fstart));
            }
            let mut p = off;
            let _ = lp_int(&file[..fstart], &mut p).map_err(|_| format!("directory: part metadata of {:?} runs into the footer", name))?;
            if p + size > fstart {
                return err(format!("directory: part of {:?} at {}+{} runs into the footer", name, off, size));
            }
            spans.push((off, p + size));
            parts.push(Part { meta_off: off, size });
        }
        streams.push(Stream { name, parts });
    }
    if pos != foot.len() {
        return err(format!("directory: {} unread bytes at the end of the footer", foot.len() - pos));
    }
    spans.sort();
    let mut prev_end = 0usize;
    for (a, b) in &spans {
        if *a < prev_end {
            return err(format!("directory: parts overlap at offset {}", a));
        }
        prev_end = *b;
    }
    if prev_end != fstart && !spans.is_empty() {
        return err(format!("directory: {} bytes between the last part and the footer are not described", fstart - prev_end));
    }
    Ok(streams)
}

fn read_part(file: &[u8], p: &Part) -> R<(u64, Vec<u8>)> {
    let mut pos = p.meta_off;
    let meta = lp_int(file, &mut pos)?;
    Ok((meta, file[pos..pos + p.size].to_vec()))
}

// ---- collection ---------------------------------------------------------------------------

/// prefix varint: 0xxxxxxx | 10xxxxxx +1 | 110xxxxx +2 | 1110xxxx +3 | 11110000 +4, with offsets
fn pv(buf: &[u8], pos: &mut usize) -> R<u32> {
    let b0 = *buf.get(*pos).ok_or("collection: varint past the end")? as u32;
    let need = if b0 < 0x80 {
        1
    } else if b0 < 0xC0 {
        2
    } else if b0 < 0xE0 {
        3
    } else if b0 < 0xF0 {
        4
    } else {
        5
    };
    if *pos + need > buf.len() {
        return err("collection: varint past the end");
    }
    let b = &buf[*pos..*pos + need];
    *pos += need;
    let t1: u32 = 1 << 7;
    let t2: u32 = t1 + (1 << 14);
    let t3: u32 = t2 + (1 << 21);
    let t4: u32 = t3 + (1 << 28);
    Ok(match need {
        1 => b0,
        2 => (((b0 & 0x3F) << 8) | b[1] as u32) + t1,
        3 => (((b0 & 0x1F) << 16) | (b[1] as u32) << 8 | b[2] as u32) + t2,
        4 => (((b0 & 0x0F) << 24) | (b[1] as u32) << 16 | (b[2] as u32) << 8 | b[3] as u32) + t3,
        _ => (((b[1] as u32) << 24) | (b[2] as u32) << 16 | (b[3] as u32) << 8 | b[4] as u32).wrapping_add(t4),
    })
}

fn cstr<'a>(buf: &'a [u8], pos: &mut usize) -> R<&'a [u8]> {
    let end = buf[*pos..].iter().position(|&b| b == 0).ok_or("collection: unterminated string")?;
    let s = &buf[*pos..*pos + end];
    *pos += end + 1;
    Ok(s)
}

fn unzstd(data: &[u8], what: &str) -> R<Vec<u8>> {
    zstd::decode_all(data).map_err(|e| format!("zstd: {}: {}", what, e))
}

/// in-group id / raw length predictor decoding
fn unzig(v: u64, pred: u64) -> u64 {
    if v >= 2 * pred {
        v
    } else if v & 1 == 1 {
        (2 * pred - v) / 2
    } else {
        (v + 2 * pred) / 2
    }
}

fn decode_names(buf: &[u8]) -> R<Vec<Vec<String>>> {
    let mut pos = 0;
    let ns = pv(buf, &mut pos)? as usize;
    let mut out = Vec::new();
    for _ in 0..ns {
        let nc = pv(buf, &mut pos)? as usize;
        let mut names: Vec<String> = Vec::new();
        let mut prev: Vec<Vec<u8>> = Vec::new();
        for ci in 0..nc {
            let enc = cstr(buf, &mut pos)?;
            let fields: Vec<Vec<u8>> = enc.split(|&b| b == b' ').map(|f| f.to_vec()).collect();
            let cur: Vec<Vec<u8>> = if ci == 0 || fields.len() != prev.len() {
                fields // full name
            } else {
                let mut c = Vec::new();
                for (f, p) in fields.iter().zip(prev.iter()) {
                    if f.len() == 1 && f[0] == 0x81 {
                        c.push(p.clone()); // 0x81 = "same field as in the previous name"
                    } else {
                        let mut o = Vec::new();
                        let mut pi = 0usize;
                        for &b in f {
                            if b < 0x80 {
                                o.push(b);
                                pi += 1;
                            } else {
                                let n = 256 - b as usize; // copy n characters from the previous field
                                if pi + n > p.len() {
                                    return err("collection: name delta copies past the previous field");
                                }
                                o.extend_from_slice(&p[pi..pi + n]);
                                pi += n;
                            }
                        }
                        c.push(o);
                    }
                }
                c
            };
            names.push(String::from_utf8(cur.join(&b' ')).map_err(|_| "collection: contig name is not UTF-8")?);
            prev = cur;
        }
        out.push(names);
    }
    if pos != buf.len() {
        return err("collection: trailing bytes after the contig names");
    }
    Ok(out)
}

fn decode_details(part: &[u8], pred_len: u64) -> R<Vec<Vec<Vec<Seg>>>> {
    let mut pos = 0;
    let mut sizes = [(0usize, 0usize); 5];
    for s in sizes.iter_mut() {
        s.0 = pv(part, &mut pos)? as usize;
        s.1 = pv(part, &mut pos)? as usize;
    }
    let mut st: Vec<Vec<u8>> = Vec::new();
    for (i, s) in sizes.iter().enumerate() {
        if pos + s.1 > part.len() {
            return err("collection: details sub-stream past the end");
        }
        let d = unzstd(&part[pos..pos + s.1], "details sub-stream")?;
        if d.len() != s.0 {
            return err(format!("collection: details sub-stream {} has {} bytes, header says {}", i, d.len(), s.0));
        }
        st.push(d);
        pos += s.1;
    }
    if pos != part.len() {
        return err("collection: trailing bytes after the details sub-streams");
    }
    let mut p0 = 0;
    let ns = pv(&st[0], &mut p0)? as usize;
    let mut shape: Vec<Vec<usize>> = Vec::new();
    for _ in 0..ns {
        let nc = pv(&st[0], &mut p0)? as usize;
        let mut v = Vec::new();
        for _ in 0..nc {
            v.push(pv(&st[0], &mut p0)? as usize);
        }
        shape.push(v);
    }
    let (mut p1, mut p2, mut p3, mut p4) = (0, 0, 0, 0);
    let mut last: HashMap<u32, i64> = HashMap::new();
    let mut out = Vec::new();
    for contigs in shape {
        let mut sv = Vec::new();
        for nseg in contigs {
            let mut segs = Vec::new();
            for _ in 0..nseg {
                let g = pv(&st[1], &mut p1)?;
                let e = pv(&st[2], &mut p2)? as u64;
                let l = pv(&st[3], &mut p3)? as u64;
                let rc = pv(&st[4], &mut p4)? != 0;
                let prev = last.get(&g).copied().unwrap_or(-1);
                let id: u64 = if prev == -1 {
                    e
                } else if e == 0 {
                    0
                } else if e == 1 {
                    (prev + 1) as u64
                } else {
                    unzig(e - 1, (prev + 1) as u64)
                };
                if id as i64 > prev && id > 0 {
                    last.insert(g, id as i64);
                }
                segs.push(Seg { group: g, in_group: id as u32, rc, raw_len: unzig(l, pred_len) as u32 });
            }
            sv.push(segs);
        }
        out.push(sv);
    }
    if p0 != st[0].len() || p1 != st[1].len() || p2 != st[2].len() || p3 != st[3].len() || p4 != st[4].len() {
        return err("collection: trailing bytes in a details sub-stream");
    }
    Ok(out)
}

// ---- segments -----------------------------------------------------------------------------

fn b64(mut n: u32) -> String {
    let mut s = String::new();
    loop {
        s.push(B64[(n & 63) as usize] as char);
        n >>= 6;
        if n == 0 {
            break;
        }
    }
    s
}

fn untuple(t: &[u8], stats: &mut Stats) -> R<Vec<u8>> {
    let Some(&marker) = t.last() else { return Ok(Vec::new()) };
    let width = (marker >> 4) as usize;
    let rem = (marker & 15) as usize;
    if width <= 4 {
        stats.tuple_width[width] += 1;
    }
    let body = &t[..t.len() - 1];
    let base: u32 = match width {
        1 => return Ok(body.to_vec()),
        2 => 16,
        3 => 6,
        4 => 4,
        w => return err(format!("tuple: marker says {} symbols per byte", w)),
    };
    if body.is_empty() || rem >= width {
        return err("tuple: malformed packed stream");
    }
    // all bytes but the last hold `width` symbols, the last holds `rem`
    let mut out = Vec::with_capacity(body.len() * width);
    for (i, &b) in body.iter().enumerate() {
        let cnt = if i + 1 == body.len() { rem } else { width };
        let mut tmp = [0u8; 4];
        let mut v = b as u32;
        for j in (0..cnt).rev() {
            tmp[j] = (v % base) as u8;
            v /= base;
        }
        out.extend_from_slice(&tmp[..cnt]);
    }
    Ok(out)
}

/// A stored part: metadata 0 = the bytes themselves; otherwise the last byte is a marker
/// (0 = plain ZSTD, other = ZSTD of a tuple-packed stream) and metadata is the unpacked size.
fn unpack_part(meta: u64, data: &[u8], stats: &mut Stats, is_ref: bool) -> R<Vec<u8>> {
    if meta == 0 {
        if is_ref {
            stats.refs_stored_raw += 1;
        } else {
            stats.packs_stored_raw += 1;
        }
        return Ok(data.to_vec());
    }
    let Some((&marker, body)) = data.split_last() else { return err("part: non-zero metadata on an empty part") };
    let z = unzstd(body, "segment part")?;
    let out = if marker == 0 {
        if is_ref {
            stats.refs_plain_zstd += 1;
        } else {
            stats.packs_zstd += 1;
        }
        z
    } else {
        if is_ref {
            stats.refs_tuple_packed += 1;
        }
        untuple(&z, stats)?
    };
    if out.len() as u64 != meta {
        return err(format!("part: metadata {} is not the unpacked size {}", meta, out.len()));
    }
    Ok(out)
}

fn lz_decode(enc: &[u8], reference: &[u8], min_match: u32, stats: &mut Stats) -> R<Vec<u8>> {
    let mut out = Vec::new();
    let mut pred: i64 = 0;
    let mut i = 0usize;
    let int = |i: &mut usize| -> R<i64> {
        let neg = enc.get(*i) == Some(&b'-');
        if neg {
            *i += 1;
        }
        let s = *i;
        let mut v: i64 = 0;
        while *i < enc.len() && enc[*i].is_ascii_digit() {
            v = v * 10 + (enc[*i] - b'0') as i64;
            *i += 1;
        }
        if *i == s {
            return err("lz: number expected");
        }
        Ok(if neg { -v } else { v })
    };
    while i < enc.len() {
        let c = enc[i];
        if c == b'!' {
            let b = *reference.get(pred as usize).ok_or("lz: '!' beyond the reference")?;
            out.push(b);
            pred += 1;
            i += 1;
            stats.lz_bangs += 1;
        } else if (b'A'..=b'A' + 30).contains(&c) {
            out.push(c - b'A');
            pred += 1;
            i += 1;
            stats.lz_literals += 1;
        } else if c == 30 {
            i += 1;
            let n = int(&mut i)?;
            if enc.get(i) != Some(&4) {
                return err("lz: N-run without terminator");
            }
            i += 1;
            out.resize(out.len() + (n + 4) as usize, 4);
            stats.lz_nruns += 1;
        } else if c == b'-' || c.is_ascii_digit() {
            let d = int(&mut i)?;
            let pos = pred + d;
            if pos < 0 || pos as usize > reference.len() {
                return err("lz: match position outside the reference");
            }
            let pos = pos as usize;
            let len = match enc.get(i) {
                Some(b'.') => {
                    i += 1;
                    stats.lz_matches_to_end += 1;
                    reference.len() - pos
                }
                Some(b',') => {
                    i += 1;
                    let l = int(&mut i)?;
                    if enc.get(i) != Some(&b'.') {
                        return err("lz: match without terminator");
                    }
                    i += 1;
                    stats.lz_matches += 1;
                    (l + min_match as i64) as usize
                }
                _ => return err("lz: ',' or '.' expected after a match position"),
            };
            if pos + len > reference.len() {
                return err("lz: match runs past the reference");
            }
            out.extend_from_slice(&reference[pos..pos + len]);
            pred = (pos + len) as i64;
        } else {
            return err(format!("lz: unexpected byte {} in the delta text", c));
        }
    }
    Ok(out)
}

fn revcomp(s: &[u8]) -> Vec<u8> {
    s.iter().rev().map(|&b| if b < 4 { 3 - b } else { b }).collect()
}

struct Groups<'a> {
    file: &'a [u8],
    by_name: HashMap<&'a str, &'a Stream>,
    refs: HashMap<u32, Vec<u8>>,
    packs: HashMap<(u32, usize), Vec<Vec<u8>>>,
    min_match: u32,
}

impl<'a> Groups<'a> {
    fn pack(&mut self, g: u32, idx: usize, stats: &mut Stats) -> R<&Vec<Vec<u8>>> {
        if !self.packs.contains_key(&(g, idx)) {
            let name = format!("x{}d", b64(g));
            let st = self.by_name.get(name.as_str()).ok_or_else(|| format!("addressing: stream {} missing", name))?;
            let p = st.parts.get(idx).ok_or_else(|| format!("addressing: {} has {} packs, pack {} needed", name, st.parts.len(), idx))?;
            let (meta, data) = read_part(self.file, p)?;
            let raw = unpack_part(meta, &data, stats, false)?;
            if raw.last() != Some(&SEP) {
                return err(format!("pack: pack {} of {} does not end with the separator", idx, name));
            }
            let entries: Vec<Vec<u8>> = raw[..raw.len() - 1].split(|&b| b == SEP).map(|e| e.to_vec()).collect();
            if entries.len() > PACK {
                return err(format!("pack: pack {} of {} has {} entries", idx, name, entries.len()));
            }
            if entries.len() == PACK {
                stats.full_packs += 1;
                if g < RAW_GROUPS {
                    stats.full_raw_group_packs += 1;
                }
            }
            if idx + 1 < st.parts.len() && entries.len() != PACK {
                return err(format!("pack: pack {} of {} is not the last one but has {} entries", idx, name, entries.len()));
            }
            if g < RAW_GROUPS && idx == 0 {
                if entries.first().map(|e| e.as_slice()) != Some(&[0x7f][..]) {
                    return err(format!("pack: raw group {} does not start with the placeholder entry", g));
                }
                stats.placeholder_packs += 1;
            }
            self.packs.insert((g, idx), entries);
        }
        Ok(self.packs.get(&(g, idx)).unwrap())
    }

    fn reference(&mut self, g: u32, stats: &mut Stats) -> R<Vec<u8>> {
        if let Some(r) = self.refs.get(&g) {
            return Ok(r.clone());
        }
        let name = format!("x{}r", b64(g));
        let st = self.by_name.get(name.as_str()).ok_or_else(|| format!("addressing: stream {} missing", name))?;
        if st.parts.len() != 1 {
            return err(format!("addressing: {} has {} parts, exactly one reference part expected", name, st.parts.len()));
        }
        let (meta, data) = read_part(self.file, &st.parts[0])?;
        let r = unpack_part(meta, &data, stats, true)?;
        stats.lz_groups += 1;
        self.refs.insert(g, r.clone());
        Ok(r)
    }

    fn segment(&mut self, s: &Seg, stats: &mut Stats) -> R<Vec<u8>> {
        stats.segments += 1;
        let fwd = if s.group < RAW_GROUPS {
            stats.segments_raw += 1;
            let id = s.in_group as usize;
            let p = self.pack(s.group, id / PACK, stats)?;
            p.get(id % PACK).cloned().ok_or_else(|| format!("addressing: raw group {} has no entry {}", s.group, id))?
        } else if s.in_group == 0 {
            stats.segments_ref += 1;
            self.reference(s.group, stats)?
        } else {
            stats.segments_delta += 1;
            let r = self.reference(s.group, stats)?;
            let id = s.in_group as usize - 1;
            let mm = self.min_match;
            let p = self.pack(s.group, id / PACK, stats)?;
            let e = p.get(id % PACK).cloned().ok_or_else(|| format!("addressing: group {} has no delta {}", s.group, s.in_group))?;
            if e.is_empty() {
                return err(format!("addressing: empty delta stored for group {} id {}", s.group, s.in_group));
            }
            lz_decode(&e, &r, mm, stats)?
        };
        if fwd.len() != s.raw_len as usize {
            return err(format!(
                "addressing: descriptor raw length {} but segment (group {}, id {}) decodes to {} bases",
                s.raw_len,
                s.group,
                s.in_group,
                fwd.len()
            ));
        }
        if s.rc {
            stats.segments_rc += 1;
            Ok(revcomp(&fwd))
        } else {
            Ok(fwd)
        }
    }
}

pub fn decode_bytes(file: &[u8]) -> R<Decoded> {
    let mut stats = Stats::default();
    let streams = parse_directory(file)?;
    stats.streams = streams.len() as u64;
    stats.parts = streams.iter().map(|s| s.parts.len() as u64).sum();
    let by_name: HashMap<&str, &Stream> = streams.iter().map(|s| (s.name.as_str(), s)).collect();
    if by_name.len() != streams.len() {
        return err("directory: duplicate stream name");
    }
    let one = |n: &str| -> R<(u64, Vec<u8>)> {
        let s = by_name.get(n).ok_or_else(|| format!("streams: {} missing", n))?;
        if s.parts.len() != 1 {
            return err(format!("streams: {} has {} parts", n, s.parts.len()));
        }
        read_part(file, &s.parts[0])
    };
    // params: little-endian u32s: k, min match, pack cardinality, segment size
    let (_, params) = one("params")?;
    if params.len() < 16 {
        return err("params: fewer than four 32-bit values");
    }
    let u = |i: usize| u32::from_le_bytes(params[4 * i..4 * i + 4].try_into().unwrap());
    let (k, min_match, packc, segment_size) = (u(0), u(1), u(2), u(3));
    if packc as usize != PACK {
        return err(format!("params: pack cardinality {} (the layout is fixed at 50)", packc));
    }
    // sample names
    let (meta, data) = one("collection-samples")?;
    let names = unzstd(&data, "collection-samples")?;
    if names.len() as u64 != meta {
        return err("collection: collection-samples metadata is not the unpacked size");
    }
    let mut pos = 0;
    let ns = pv(&names, &mut pos)? as usize;
    let mut sample_names = Vec::new();
    for _ in 0..ns {
        sample_names.push(String::from_utf8(cstr(&names, &mut pos)?.to_vec()).map_err(|_| "collection: sample name is not UTF-8")?);
    }
    // contig names + details, one part per batch of samples
    let cs = by_name.get("collection-contigs").ok_or("streams: collection-contigs missing")?;
    let ds = by_name.get("collection-details").ok_or("streams: collection-details missing")?;
    if cs.parts.len() != ds.parts.len() {
        return err("collection: contig-name and detail batches differ in number");
    }
    stats.metadata_batches = cs.parts.len() as u64;
    let mut contig_names: Vec<Vec<String>> = Vec::new();
    let mut details: Vec<Vec<Vec<Seg>>> = Vec::new();
    for (cp, dp) in cs.parts.iter().zip(ds.parts.iter()) {
        let (m, d) = read_part(file, cp)?;
        let raw = unzstd(&d, "collection-contigs")?;
        if raw.len() as u64 != m {
            return err("collection: collection-contigs metadata is not the unpacked size");
        }
        let n = decode_names(&raw)?;
        let (_, d) = read_part(file, dp)?;
        let det = decode_details(&d, (segment_size + k) as u64)?;
        if n.len() != det.len() {
            return err("collection: a batch has different sample counts in names and details");
        }
        if n.len() > PACK {
            return err("collection: a metadata batch holds more than 50 samples");
        }
        contig_names.extend(n);
        details.extend(det);
    }
    if contig_names.len() != sample_names.len() {
        return err(format!("collection: {} samples named, {} described", sample_names.len(), contig_names.len()));
    }
    let mut groups = Groups { file, by_name, refs: HashMap::new(), packs: HashMap::new(), min_match };
    let mut samples = Vec::new();
    let mut raw_used: BTreeMap<u32, ()> = BTreeMap::new();
    for ((sname, cnames), cdet) in sample_names.into_iter().zip(contig_names).zip(details) {
        if cnames.len() != cdet.len() {
            return err(format!("collection: sample {:?} has {} names but {} descriptor lists", sname, cnames.len(), cdet.len()));
        }
        let mut contigs = Vec::new();
        for (cname, segs) in cnames.into_iter().zip(cdet) {
            let mut bases: Vec<u8> = Vec::new();
            for (i, s) in segs.iter().enumerate() {
                if s.group < RAW_GROUPS {
                    raw_used.insert(s.group, ());
                }
                let d = groups.segment(s, &mut stats)?;
                if i == 0 {
                    bases = d;
                } else {
                    if d.len() < k as usize {
                        return err(format!("contig: segment {} of {:?} is shorter than k", i, cname));
                    }
                    if bases.len() < k as usize || bases[bases.len() - k as usize..] != d[..k as usize] {
                        return err(format!("contig: segment {} of {:?} does not overlap the previous one by k bases", i, cname));
                    }
                    bases.extend_from_slice(&d[k as usize..]);
                }
            }
            contigs.push((cname, bases, segs));
        }
        samples.push((sname, contigs));
    }
    stats.raw_groups_used = raw_used.len() as u64;
    let directory = streams.iter().map(|s| (s.name.clone(), s.parts.len())).collect();
    Ok(Decoded { k, min_match, segment_size, samples, stats, directory })
}

/// Byte spans [start, end) of every part (metadata integer + data) and the start of the footer
pub fn part_spans(file: &[u8]) -> R<(Vec<(usize, usize)>, usize)> {
    let streams = parse_directory(file)?;
    let flen = u64::from_le_bytes(file[file.len() - 8..].try_into().unwrap()) as usize;
    let fstart = file.len() - 8 - flen;
    let mut v = Vec::new();
    for s in &streams {
        for p in &s.parts {
            let mut pos = p.meta_off;
            let _ = lp_int(file, &mut pos)?;
            v.push((p.meta_off, pos + p.size));
        }
    }
    v.sort();
    Ok((v, fstart))
}

pub fn decode_file(path: &str) -> R<Decoded> {
    let file = std::fs::read(path).map_err(|e| format!("io: {}", e))?;
    decode_bytes(&file)
}
