//! C12 (ZSTD half): compressing a byte string as a reference segment (tuple-packed or plain,
//! chosen by the repetitiveness test) or as a delta pack and decompressing it with the stored
//! marker returns the same bytes; the thread-local context keeps no state between calls.

use ragc_core::segment_compression::{compress_reference_segment, compress_segment_configured, decompress_segment_with_marker};
use std::panic::{catch_unwind, AssertUnwindSafe};
use vcommon::{fnv, jnums, jobj, jstr, Args, Report, Rng};

fn roundtrip(data: &[u8], level: i32) -> Result<(u8, Vec<u8>, Vec<u8>), String> {
    let v = data.to_vec();
    let (c, marker) = compress_reference_segment(&v).map_err(|e| format!("error: compress_reference_segment: {:#}", e))?;
    let back = decompress_segment_with_marker(&c, marker).map_err(|e| format!("error: decompress (marker {}): {:#}", marker, e))?;
    if back != data {
        return Err(format!("reference: reference-segment round trip differs (marker {}, {} -> {} bytes)", marker, data.len(), back.len()));
    }
    let p = compress_segment_configured(&v, level).map_err(|e| format!("error: compress_segment_configured({}): {:#}", level, e))?;
    let back2 = decompress_segment_with_marker(&p, 0).map_err(|e| format!("error: decompress pack: {:#}", e))?;
    if back2 != data {
        return Err(format!("pack: delta-pack round trip differs at level {} ({} -> {} bytes)", level, data.len(), back2.len()));
    }
    Ok((marker, c, p))
}

/// The repetitiveness measure as the property's threshold rule describes it (fraction of
/// positions equal to the one `offset` further on, over the ACGT positions), for offset 4 only:
/// used to build inputs that sit exactly on the 0.5 threshold.
fn exactly_half_repetitive(rng: &mut Rng) -> Vec<u8> {
    let m = rng.usize(2, 300);
    let len = 4 + 2 * m;
    let mut equal: Vec<bool> = (0..2 * m).map(|j| j < m).collect();
    rng.shuffle(&mut equal);
    let mut d: Vec<u8> = (0..4).map(|_| rng.below(4) as u8).collect();
    for j in 4..len {
        let prev = d[j - 4];
        d.push(if equal[j - 4] { prev } else { (prev + 1 + rng.below(3) as u8) % 4 });
    }
    d
}

fn gen(rng: &mut Rng, i: u64) -> Vec<u8> {
    if i % 25 == 3 {
        return exactly_half_repetitive(rng);
    }
    if i % 1250 == 7 {
        // incompressible and longer than five 128 KiB ZSTD blocks
        let len = rng.usize(660_000, 1_500_000);
        return (0..len).map(|_| rng.below(256) as u8).collect();
    }
    let len = match rng.below(10) {
        0 => rng.usize(0, 8),
        1 => rng.usize(0, 70),
        2 if i % 50 == 0 => rng.usize(10_000, 100_000),
        _ => rng.usize(0, 3000),
    };
    let maxsym = *rng.pick(&[3u8, 3, 3, 4, 5, 15, 16, 30, 255]);
    if rng.chance(1, 2) {
        // periodic with noise: repetitiveness on both sides of the 0.5 threshold
        let period = rng.usize(1, 40);
        let unit: Vec<u8> = (0..period).map(|_| rng.below(maxsym as u64 + 1) as u8).collect();
        let noise = *rng.pick(&[0u64, 5, 20, 40, 50, 60, 80]);
        (0..len).map(|j| if rng.below(100) < noise { rng.below(maxsym as u64 + 1) as u8 } else { unit[j % period] }).collect()
    } else {
        (0..len).map(|_| rng.below(maxsym as u64 + 1) as u8).collect()
    }
}

pub fn run(args: &Args, rep: &mut Report) {
    let n = args.get_u64("n", if args.tier_thorough { 400_000 } else { 5_000 });
    let only: Option<u64> = args.case.as_ref().and_then(|c| c.parse().ok());
    let mut kept: Vec<(Vec<u8>, i32, Vec<u8>, Vec<u8>)> = Vec::new();
    for i in 0..n {
        if !args.mine(i) {
            continue;
        }
        if let Some(c) = only {
            if c != i {
                continue;
            }
        }
        let mut rng = Rng::derive(args.seed, 0xC12F, i);
        let data = gen(&mut rng, i);
        let level = if rng.chance(1, 2) { *rng.pick(&[13, 17, 19]) } else { rng.range(1, 19) as i32 };
        rep.evaluations += 1;
        let r = catch_unwind(AssertUnwindSafe(|| roundtrip(&data, level)));
        let verdict = match r {
            Ok(x) => x,
            Err(pn) => Err(format!("panic: {}", crate::drive::panic_message(&pn))),
        };
        match verdict {
            Ok((marker, c, p)) => {
                rep.count(if marker == 0 { "reference_plain_zstd" } else { "reference_tuple_packed" }, 1);
                rep.count("bytes_compressed", data.len() as u64);
                if i % 25 == 3 {
                    rep.count("strings_exactly_on_the_repetitiveness_threshold", 1);
                }
                if data.len() > 655_360 {
                    rep.count("incompressible_strings_longer_than_five_zstd_blocks", 1);
                }
                if data.len() > 8 {
                    rep.nontrivial(fnv(&data) ^ level as u64);
                }
                if kept.len() < 400 && data.len() < 5000 {
                    kept.push((data, level, c, p));
                }
            }
            Err(w) => rep.violation(
                &format!("C12:{}", w.split(':').next().unwrap_or("")),
                jobj(&[
                    ("what", jstr(&vcommon::clip(&w, 600))),
                    ("workload", jstr("vh c12")),
                    ("seed", args.seed.to_string()),
                    ("case", i.to_string()),
                    ("level", level.to_string()),
                    ("length", data.len().to_string()),
                    ("first_bytes", jnums(&data.iter().take(200).collect::<Vec<_>>())),
                ]),
            ),
        }
    }
    // the thread-local compression context keeps no state between calls: a second thread that
    // compresses the same strings in another order gets byte-identical outputs
    if !kept.is_empty() {
        let kept2 = kept.clone();
        let res = std::thread::Builder::new().name("vh-replay".into()).spawn(move || {
            let mut bad: Option<String> = None;
            let mut differ = 0u64;
            for (data, level, c, p) in kept2.iter().rev() {
                match roundtrip(data, *level) {
                    Ok((_, c2, p2)) => {
                        // byte-identical output is expected from ZSTD but is not part of the
                        // property: observed and counted, not judged
                        if &c2 != c || &p2 != p {
                            differ += 1;
                        }
                    }
                    Err(w) => {
                        bad = Some(w);
                        break;
                    }
                }
            }
            (bad, differ)
        })
        .expect("spawn replay thread")
        .join()
        .unwrap_or((Some("panic: replay thread panicked".into()), 0));
        rep.count("replayed_strings_with_different_compressed_bytes", res.1);
        let res = res.0;
        rep.count("strings_replayed_on_second_thread", kept.len() as u64);
        rep.evaluations += kept.len() as u64;
        if let Some(w) = res {
            rep.violation(
                &format!("C12:{}", w.split(':').next().unwrap_or("")),
                jobj(&[("what", jstr(&w)), ("workload", jstr("vh c12")), ("seed", args.seed.to_string()), ("case", jstr("replay-on-second-thread"))]),
            );
        }
    }
    rep.sample(jobj(&[("note", jstr("random byte strings; periodic with noise around the 0.5 repetitiveness threshold; levels 1..19"))]));
}
