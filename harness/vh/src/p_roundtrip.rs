//! C01 (lossless round trip) and C02 (independent decoder agrees; addressing rules hold).
//! Both run the same generated cases; C01 judges ragc's own reader against the input, C02
//! judges the from-scratch decoder `agcdec` against the input and against ragc's reader.

use crate::cli::{self, Presentation};
use crate::drive;
use crate::gen::{self, Params, SampleSet, Shape};
use crate::mon;
use ragc_common::verif::ev;
use std::panic::{catch_unwind, AssertUnwindSafe};
use vcommon::{fnv, jobj, jstr, Args, Report, Rng};

#[derive(Clone, Copy, PartialEq)]
pub enum Which {
    C01,
    C02,
}

/// Cases of a different scale (one of each per 160 cases): a contig of several Mbases cut into
/// more than 65 536 segments / groups, and an archive with more than 256 samples.
fn scale_case(i: u64, rng: &mut Rng) -> Option<(Params, SampleSet)> {
    let kind = match i % 160 {
        37 => 0,
        117 => 1,
        77 => return Some(lookalike_groups_case(rng)),
        97 => return Some(long_raw_segment_case(rng)),
        _ => return None,
    };
    let mut p = gen::params(rng, true);
    p.fallback = 0.0;
    p.capacity = 2 << 30;
    p.pack = 50;
    p.threads = *rng.pick(&[4usize, 8, 16]);
    let mut samples = Vec::new();
    if kind == 0 {
        p.k = *rng.pick(&[13usize, 15, 17]);
        p.segment_size = 50;
        p.min_match = rng.usize(15, 20);
        p.single_file = rng.chance(1, 3);
        let len = rng.usize(4_300_000, 4_700_000);
        let base = gen::random_bases(rng, len);
        for si in 0..rng.usize(2, 3) {
            let mut d = base.clone();
            if si > 0 {
                for _ in 0..len / 300 {
                    let at = rng.usize(0, len - 1);
                    d[at] = if rng.chance(1, 50) { rng.usize(4, 15) as u8 } else { rng.below(4) as u8 };
                }
                if si == 2 {
                    d = gen::revcomp(&d);
                }
            }
            let sn = format!("M{}#0", [9, 10, 2][si]);
            let contigs = vec![(format!("{}#chr1 len={}", sn, len), d)];
            samples.push(gen::Sample { name: sn.clone(), contigs });
        }
    } else {
        p.k = rng.usize(9, 13);
        p.segment_size = 50;
        p.single_file = false;
        let base: Vec<Vec<u8>> = (0..2).map(|_| { let l = rng.usize(120, 420); gen::random_bases(rng, l) }).collect();
        for si in 0..rng.usize(258, 300) {
            let sn = format!("W{}#{}", si * 7 % 1000, si % 2);
            let contigs = base
                .iter()
                .enumerate()
                .filter(|(ci, _)| *ci == 0 || si % 3 != 1)
                .map(|(ci, b)| (format!("{}#c{}", sn, ci), if si == 0 { b.clone() } else { gen::derive_contig(rng, b, 20, true) }))
                .collect();
            samples.push(gen::Sample { name: sn, contigs });
        }
    }
    Some((p, SampleSet { samples, pansn: true }))
}

/// A novel contig of more than 2.1 Mbases in a later sample, with k = 31 so that no reference
/// splitter occurs in it by chance: one raw segment whose length needs the 4-byte form of the
/// collection integers (>= 2 113 664; the 3-byte form ends at 2 113 663).
fn long_raw_segment_case(rng: &mut Rng) -> (Params, SampleSet) {
    let mut p = gen::params(rng, false);
    p.k = 31;
    p.segment_size = *rng.pick(&[20_000usize, 60_000]);
    p.fallback = 0.0;
    p.single_file = false;
    p.capacity = 2 << 30;
    p.pack = 50;
    p.threads = *rng.pick(&[2usize, 4, 8]);
    let l = rng.usize(200_000, 400_000);
    let base = gen::random_bases(rng, l);
    let second = gen::derive_contig(rng, &base, 3, false);
    let nl = rng.usize(2_150_000, 2_400_000);
    let novel = gen::random_bases(rng, nl);
    let set = SampleSet {
        samples: vec![
            gen::Sample { name: "R9#0".into(), contigs: vec![("R9#0#chr1".into(), base)] },
            gen::Sample { name: "R10#0".into(), contigs: vec![("R10#0#chr1".into(), second), (format!("R10#0#novel len={}", nl), novel)] },
        ],
        pansn: true,
    };
    (p, set)
}

/// Two LZ groups whose reference segments have the same length and the same first and last 16
/// bases but different interiors (paralog-like): the splitter k-mers are planted (k = 21, front
/// k-mers share their first 16 bases, back k-mers their last 16). Anything that identifies a
/// reference by its length and ends, or keeps decoder state from one group to the next, mixes
/// them up. Later samples carry SNPs in both interiors, so both groups hold real deltas.
fn lookalike_groups_case(rng: &mut Rng) -> (Params, SampleSet) {
    let mut p = gen::params(rng, true);
    p.k = 21;
    p.segment_size = 100;
    p.fallback = 0.0;
    p.single_file = false;
    p.capacity = 2 << 30;
    p.pack = 50;
    p.min_match = rng.usize(15, 20);
    let pre = gen::random_bases(rng, 16);
    let suf = gen::random_bases(rng, 16);
    let mut kmers: Vec<Vec<u8>> = Vec::new();
    let ngroups = rng.usize(2, 4);
    let ilen = rng.usize(120, 600);
    let mut refs: Vec<Vec<u8>> = Vec::new();
    for g in 0..ngroups {
        // distinct 5-base tails / heads: g written in base 4 plus a random part
        let tail: Vec<u8> = vec![(g % 4) as u8, (g / 4) as u8, rng.below(4) as u8, rng.below(4) as u8, (3 - g % 4) as u8];
        let head: Vec<u8> = vec![(3 - g % 4) as u8, rng.below(4) as u8, (g % 4) as u8, rng.below(4) as u8, (g / 4) as u8];
        let front = [&pre[..], &tail[..]].concat();
        let back = [&head[..], &suf[..]].concat();
        let interior = gen::random_bases(rng, ilen);
        refs.push([&front[..], &interior[..], &back[..]].concat());
        kmers.push(front);
        kmers.push(back);
    }
    let mut samples = Vec::new();
    for si in 0..rng.usize(3, 5) {
        let sn = format!("L{}#0", [9, 10, 2, 33, 1][si]);
        let contigs = refs
            .iter()
            .enumerate()
            .map(|(g, r)| {
                let mut d = r.clone();
                if si > 0 {
                    for _ in 0..rng.usize(1, 4) {
                        let at = rng.usize(21, r.len() - 22);
                        d[at] = (d[at] + 1 + rng.below(3) as u8) % 4;
                    }
                }
                (format!("{}#para{}", sn, g), d)
            })
            .collect();
        samples.push(gen::Sample { name: sn, contigs });
    }
    let planted: Vec<u64> = kmers.iter().map(|k| drive::canonical_kmer_value(k)).collect();
    drive::PLANTED_SPLITTERS.with(|c| *c.borrow_mut() = Some(planted));
    (p, SampleSet { samples, pansn: true })
}

pub fn case_inputs(seed: u64, i: u64, thorough: bool) -> (Params, SampleSet, Rng) {
    case_inputs_scaled(seed, i, thorough, false)
}

pub fn case_inputs_scaled(seed: u64, i: u64, thorough: bool, scale: bool) -> (Params, SampleSet, Rng) {
    let mut rng = Rng::derive(seed, 0xC01, i);
    if scale {
        if let Some((p, set)) = scale_case(i, &mut rng) {
            return (p, set, rng);
        }
    }
    let big = thorough && rng.chance(1, 10);
    let mut p = gen::params(&mut rng, !big);
    let shape = Shape {
        max_samples: 130,
        max_contigs: 6,
        max_contig_len: if big { 200_000 } else { 9_000 },
        iupac: true,
        allow_many_samples: true,
    };
    if big {
        p.segment_size = *rng.pick(&[1000usize, 5000, 60000]);
    }
    let set = gen::sample_set(&mut rng, &p, &shape);
    (p, set, rng)
}

fn agcdec_compare(path: &str, set: &SampleSet, ragc_out: Option<&Vec<(String, Vec<(String, Vec<u8>)>)>>, rep: &mut Report) -> Result<(), String> {
    let d = agcdec::decode_file(path).map_err(|e| format!("decoder: independent decoder rejects the archive: {}", e))?;
    let got: Vec<(String, Vec<(String, Vec<u8>)>)> = d
        .samples
        .iter()
        .map(|(s, cs)| (s.clone(), cs.iter().map(|(n, b, _)| (n.clone(), b.clone())).collect()))
        .collect();
    if let Some(diff) = drive::compare(set, &got) {
        return Err(format!("input: independent decoder disagrees with the input: {}", diff));
    }
    if let Some(r) = ragc_out {
        if *r != got {
            return Err("reader: independent decoder and ragc's reader disagree".to_string());
        }
    }
    if d.k == 0 {
        return Err("params: k = 0".to_string());
    }
    let s = &d.stats;
    rep.count("dec_streams", s.streams);
    rep.count("dec_parts", s.parts);
    rep.count("dec_lz_groups", s.lz_groups);
    rep.count("dec_refs_tuple_packed", s.refs_tuple_packed);
    rep.count("dec_refs_plain_zstd", s.refs_plain_zstd);
    rep.count("dec_refs_stored_raw", s.refs_stored_raw);
    rep.count("dec_packs_zstd", s.packs_zstd);
    rep.count("dec_packs_stored_raw", s.packs_stored_raw);
    rep.count("dec_full_packs", s.full_packs);
    rep.count("dec_placeholder_packs", s.placeholder_packs);
    rep.count("dec_full_raw_group_packs", s.full_raw_group_packs);
    rep.count("dec_segments", s.segments);
    rep.count("dec_segments_reference", s.segments_ref);
    rep.count("dec_segments_delta", s.segments_delta);
    rep.count("dec_segments_raw_group", s.segments_raw);
    rep.count("dec_segments_reverse_complemented", s.segments_rc);
    rep.count("dec_lz_literals", s.lz_literals);
    rep.count("dec_lz_bang_literals", s.lz_bangs);
    rep.count("dec_lz_nruns", s.lz_nruns);
    rep.count("dec_lz_matches", s.lz_matches);
    rep.count("dec_lz_matches_to_end", s.lz_matches_to_end);
    rep.count("dec_archives_with_several_metadata_batches", (s.metadata_batches > 1) as u64);
    rep.count("dec_archives_with_more_than_65536_groups", (s.lz_groups > 65536) as u64);
    rep.max("dec_max_groups_in_an_archive", s.lz_groups);
    if rep.samples.len() < 1 && d.directory.len() < 40 {
        let dir: Vec<String> = d.directory.iter().map(|(n, p)| format!("{}:{}", n, p)).collect();
        rep.sample(jobj(&[("decoded_directory_stream_parts", jstr(&dir.join(" ")))]));
    }
    Ok(())
}

fn violation(rep: &mut Report, which: Which, args: &Args, i: u64, what: &str, p: &Params, set: &SampleSet, via: &str) {
    let id = if which == Which::C01 { "C01" } else { "C02" };
    rep.violation(
        &format!("{}:{}", id, what.split(':').next().unwrap_or("")),
        jobj(&[
            ("what", jstr(&vcommon::clip(what, 1200))),
            ("workload", jstr(if which == Which::C01 { "vh c01" } else { "vh c02" })),
            ("via", jstr(via)),
            ("seed", args.seed.to_string()),
            ("case", i.to_string()),
            ("tier_thorough", args.tier_thorough.to_string()),
            ("params", p.json()),
            ("input", set.brief()),
        ]),
    );
}

pub fn run(args: &Args, rep: &mut Report, which: Which) {
    let thorough = args.tier_thorough;
    let n = args.get_u64("n", if thorough { 2000 } else { 160 });
    let scratch = args.get("scratch").unwrap_or("/tmp").to_string();
    let ragc = args.get("ragc").map(|s| s.to_string());
    let dir = format!("{}/rt-{}-{}", scratch, std::process::id(), args.shard);
    std::fs::create_dir_all(&dir).unwrap();
    let only: Option<u64> = args.case.as_ref().and_then(|c| c.parse().ok());
    mon::install();
    for i in 0..n {
        if !args.mine(i) {
            continue;
        }
        if let Some(c) = only {
            if c != i {
                continue;
            }
        }
        let (p, set, mut rng) = case_inputs_scaled(args.seed, i, thorough, true);
        mon::set_case(i, jobj(&[("case", i.to_string()), ("params", p.json()), ("input", set.brief())]));
        rep.evaluations += 1;
        let via_cli = ragc.is_some() && i % 8 == 3;
        let path = format!("{}/a{}.agc", dir, i);
        let before = mon::path_counters();
        let mut pres_note = String::new();
        // ---- create ----
        let created: Result<(), String> = if via_cli {
            let mut pr = Presentation::plain();
            pr.single_file = p.single_file;
            pr.gz = rng.below(3) as u8;
            pr.case = rng.below(3) as u8;
            pr.width = *rng.pick(&[1usize, 7, 60, 80, 100_000]);
            pr.crlf = rng.chance(1, 4);
            pres_note = pr.describe();
            let mut set2 = set.clone();
            // the single-file mode needs PanSN headers; the generator guarantees that
            if !set2.pansn && p.single_file {
                set2.pansn = true;
            }
            let idir = format!("{}/in{}", dir, i);
            std::fs::create_dir_all(&idir).unwrap();
            let (inputs, _) = cli::write_inputs(&idir, &set, &pr, &mut rng, "");
            let o = cli::run(&mut cli::create_cmd(ragc.as_ref().unwrap(), &path, &inputs, &p), cli::TIMEOUT);
            let r = if o.timed_out {
                Err("wall-clock watchdog fired twice (180 s, then 720 s)".to_string())
            } else if !o.ok() {
                Err(format!("exit {:?}: {}", o.code, o.stderr_tail()))
            } else {
                Ok(())
            };
            let _ = std::fs::remove_dir_all(&idir);
            r
        } else {
            match catch_unwind(AssertUnwindSafe(|| drive::create(&path, &set, &p))) {
                Ok(Ok(())) => Ok(()),
                Ok(Err(e)) => Err(format!("error: {:#}", e)),
                Err(pn) => Err(format!("panic: {}", drive::panic_message(&pn))),
            }
        };
        let via = if via_cli { format!("ragc binary ({})", pres_note) } else { "library".to_string() };
        if let Err(e) = created {
            // C01/C02 speak about archives that were reported as written; a create that fails
            // on valid input is not their business (C05/C17/C18 look at that) - but it must be
            // visible, so it is reported as inconclusive, never silently skipped
            rep.inconclusive(format!("case {}: create did not succeed ({}): {} [{}]", i, via, vcommon::clip(&e, 300), p.describe()));
            let _ = std::fs::remove_file(&path);
            continue;
        }
        // ---- path counters for this case ----
        let after = mon::path_counters();
        let delta = |k: &str| after.get(k).copied().unwrap_or(0) - before.get(k).copied().unwrap_or(0);
        let hard = delta("classified_split_in_two") + delta("classified_assign_left") + delta("classified_assign_right") + delta("one_kmer_lookup_front") + delta("one_kmer_lookup_back");
        // ---- extract through ragc's reader ----
        let ragc_out: Result<Vec<(String, Vec<(String, Vec<u8>)>)>, String> = if via_cli {
            // one getset per sample through the binary
            let mut out = Vec::new();
            let mut err = None;
            let ls = cli::run(std::process::Command::new(ragc.as_ref().unwrap()).arg("listset").arg(&path), cli::TIMEOUT);
            if !ls.ok() {
                err = Some(format!("error: listset exit {:?}: {}", ls.code, ls.stderr_tail()));
            }
            let names: Vec<String> = String::from_utf8_lossy(&ls.stdout).lines().map(|s| s.to_string()).collect();
            // the catalogue as the binary lists it: "sample<TAB>contig name" per contig, verbatim
            if err.is_none() && !names.is_empty() {
                let lc = cli::run(std::process::Command::new(ragc.as_ref().unwrap()).arg("listctg").arg(&path).args(&names), cli::TIMEOUT);
                let want: Vec<String> = set
                    .samples
                    .iter()
                    .flat_map(|s| s.contigs.iter().filter(|c| !c.1.is_empty()).map(move |c| format!("{}\t{}", s.name, c.0)))
                    .collect();
                let got: Vec<String> = String::from_utf8_lossy(&lc.stdout).lines().map(|l| l.to_string()).collect();
                rep.count("cli_listctg_lines_compared", got.len() as u64);
                if !lc.ok() {
                    err = Some(format!("error: listctg exit {:?}: {}", lc.code, lc.stderr_tail()));
                } else if names.len() == set.samples.len() && got != want {
                    let pos = got.iter().zip(want.iter()).position(|(a, b)| a != b).unwrap_or(got.len().min(want.len()));
                    err = Some(format!("names: listctg differs from the input catalogue at line {}: got {:?}, expected {:?}", pos, got.get(pos), want.get(pos)));
                }
            }
            for s in &names {
                if err.is_some() {
                    break;
                }
                let o = cli::run(std::process::Command::new(ragc.as_ref().unwrap()).arg("getset").arg(&path).arg(s), cli::TIMEOUT);
                if !o.ok() {
                    err = Some(format!("error: getset {:?} exit {:?}: {}", s, o.code, o.stderr_tail()));
                    break;
                }
                let recs = cli::parse_fasta(&o.stdout);
                out.push((s.clone(), recs.into_iter().map(|(n, a)| (n, cli::ascii_to_codes(&a))).collect()));
            }
            match err {
                Some(e) => Err(e),
                None => Ok(out),
            }
        } else {
            match catch_unwind(AssertUnwindSafe(|| drive::extract_all(&path))) {
                Ok(Ok(v)) => Ok(v),
                Ok(Err(e)) => Err(format!("error: extraction failed: {:#}", e)),
                Err(pn) => Err(format!("panic: extraction panicked: {}", drive::panic_message(&pn))),
            }
        };
        match which {
            Which::C01 => match &ragc_out {
                Err(e) => violation(rep, which, args, i, e, &p, &set, &via),
                Ok(v) => {
                    if let Some(diff) = drive::compare(&set, v) {
                        violation(rep, which, args, i, &diff, &p, &set, &via);
                    }
                }
            },
            Which::C02 => {
                let r = catch_unwind(AssertUnwindSafe(|| {
                    let mut tmp = Report::new();
                    let r = agcdec_compare(&path, &set, ragc_out.as_ref().ok(), &mut tmp);
                    (r, tmp)
                }));
                match r {
                    Ok((Ok(()), tmp)) => rep.merge(tmp),
                    Ok((Err(e), _)) => violation(rep, which, args, i, &e, &p, &set, &via),
                    Err(pn) => rep.inconclusive(format!("case {}: the independent decoder itself panicked: {}", i, drive::panic_message(&pn))),
                }
            }
        }
        // ---- bookkeeping ----
        if via_cli {
            rep.count("archives_via_ragc_binary", 1);
        } else {
            rep.count("archives_via_library", 1);
        }
        rep.count(if p.single_file { "mode_single_file" } else { "mode_multi_file" }, 1);
        if set.samples.len() > 50 {
            rep.count("archives_with_more_than_50_samples", 1);
        }
        if p.fallback > 0.0 {
            rep.count("archives_with_fallback_minimizers", 1);
        }
        if p.k == 32 {
            rep.count("archives_with_k32", 1);
        }
        rep.max("max_samples_in_an_archive", set.samples.len() as u64);
        if i % 160 == 97 {
            rep.count("archives_with_a_raw_segment_of_more_than_2_Mbases", 1);
        }
        if i % 160 == 77 {
            rep.count("archives_with_look_alike_reference_segments", 1);
        }
        if set.samples.len() > 256 {
            rep.count("archives_with_more_than_256_samples", 1);
        }
        if set.samples.iter().any(|s| s.contigs.iter().any(|c| c.1.len() > 4_000_000)) {
            rep.count("archives_with_a_contig_of_more_than_4_Mbases", 1);
        }
        rep.max("max_contig_length", set.samples.iter().flat_map(|s| s.contigs.iter().map(|c| c.1.len())).max().unwrap_or(0) as u64);
        rep.max("max_bases_in_an_archive", set.total_bases() as u64);
        if set.samples.len() >= 2 && (hard > 0 || via_cli) {
            rep.nontrivial(set.digest() ^ fnv(p.describe().as_bytes()));
        }
        if rep.samples.len() < 3 {
            rep.sample(jobj(&[("case", i.to_string()), ("via", jstr(&via)), ("params", p.json()), ("input", set.brief())]));
        }
        let _ = std::fs::remove_file(&path);
    }
    for (k, v) in mon::path_counters() {
        rep.count(&format!("path_{}", k), v);
    }
    let _ = ev::Q_ADMIT;
    let _ = std::fs::remove_dir_all(&dir);
}
