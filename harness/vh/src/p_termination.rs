//! C05: the compression pipeline always terminates.
//!
//! Liveness is judged as a safety property over observed executions. Every run happens in its
//! own child process (a stuck run cannot be recovered in-process):
//!   * online: a monitor thread derives every pipeline thread's state from the hook events
//!     (running / waiting for queue space / waiting for an item / at barrier (round, phase) /
//!     polling for an empty queue / joining worker i / exited) and the queue state from the
//!     queue events. If no thread is running and none can proceed on its own, and that state
//!     persists with no new event, the run is declared stuck - a verdict from state, not time.
//!   * offline: protocol accounting over the complete log (conservation of contigs, tokens per
//!     round, the same barrier passages for every worker in every round, every worker exits after the last
//!     round) and a final check that every pushed contig is in the archive.
//! The parent keeps a generous wall-clock watchdog whose firing is "inconclusive" only.

use crate::cli;
use crate::drive::{self, DriveOpts};
use crate::gen::{self, Params, SampleSet, Shape};
use crate::mon;
use std::panic::{catch_unwind, AssertUnwindSafe};
use std::time::Duration;
use vcommon::{fnv, jobj, jstr, Args, Report, Rng};

pub struct Case {
    pub p: Params,
    pub set: SampleSet,
    pub opts: DriveOpts,
    pub pseed: u64,
    pub per_mille: u64,
    pub oversized: bool,
}

pub fn case_inputs(seed: u64, i: u64) -> Case {
    let mut rng = Rng::derive(seed, 0xC05, i);
    let mut p = gen::params(&mut rng, true);
    p.threads = rng.usize(1, 16);
    p.single_file = rng.chance(1, 2);
    p.pack = if rng.chance(1, 2) { rng.usize(1, 6) } else { rng.usize(1, 60) };
    let shape = Shape { max_samples: 6, max_contigs: 7, max_contig_len: if rng.chance(1, 8) { 300_000 } else { 5_000 }, iupac: false, allow_many_samples: false };
    if shape.max_contig_len > 100_000 {
        p.segment_size = 60_000;
    }
    let mut set = gen::sample_set(&mut rng, &p, &shape);
    // uniform PanSN headers so both modes accept the set
    for (i, s) in set.samples.iter_mut().enumerate() {
        let sn = format!("T{:03}#{}", i, i % 2);
        for (j, c) in s.contigs.iter_mut().enumerate() {
            c.0 = format!("{}#c{}", sn, j);
        }
        s.name = sn;
    }
    set.pansn = true;
    let sizes: Vec<usize> = set.samples.iter().flat_map(|s| s.contigs.iter().map(|c| c.1.len())).collect();
    let maxc = *sizes.iter().max().unwrap_or(&1);
    let minc = *sizes.iter().min().unwrap_or(&1);
    p.capacity = match rng.below(8) {
        0 => 1,                                  // every contig is oversized
        1 => minc.saturating_sub(1).max(1),      // smaller than the smallest
        2 => maxc.saturating_sub(1).max(1),      // smaller than the largest
        3 => maxc,                               // exactly one largest contig
        4 => 2 * maxc,                           // two contigs
        5 => maxc + minc,
        6 => 1 << 20,
        _ => 2 << 30,
    };
    let total: usize = sizes.len();
    let mut opts = DriveOpts::default();
    if rng.chance(1, 2) {
        for _ in 0..rng.usize(1, 3) {
            opts.extra_sync_after.push(rng.usize(1, total.max(1)));
        }
    }
    if rng.chance(1, 6) {
        opts.extra_sync_after.push(0);
    }
    opts.empty_splitters = rng.chance(1, 6);
    Case { oversized: p.capacity < maxc, p, set, opts, pseed: rng.next(), per_mille: *rng.pick(&[0u64, 100, 400, 800]) }
}

static STUCK_CTX: std::sync::Mutex<Option<(Option<String>, String)>> = std::sync::Mutex::new(None);

/// Stuck-state verdict of the online detector: report and leave (threads cannot be recovered)
fn on_stuck(desc: &str, log: &[mon::Ev]) {
    let (out, cj) = STUCK_CTX.lock().unwrap().clone().unwrap_or((None, "null".to_string()));
    let mut rep = Report::new();
    rep.evaluations = 1;
    let tail: Vec<String> = log
        .iter()
        .rev()
        .take(60)
        .rev()
        .map(|e| format!("[{},{},{},{},{},{}]", e.kind, e.tid, e.a[0], e.a[1], e.a[2], e.a[3]))
        .collect();
    rep.violation(
        "C05:stuck",
        jobj(&[
            ("what", jstr(&format!("stuck: {}", desc))),
            ("case_detail", cj),
            ("events_seen", log.len().to_string()),
            ("last_events_kind_tid_args", vcommon::jarr(&tail)),
        ]),
    );
    if let Some(p) = &out {
        let _ = std::fs::write(p, rep.to_json());
    }
    std::process::exit(3);
}

/// Child process: run one case under the monitors. Exit code 0 = held, 3 = violation (details
/// in the report file), anything else = harness trouble.
pub fn child(args: &Args, rep: &mut Report) -> i32 {
    let i: u64 = args.case.as_ref().and_then(|c| c.parse().ok()).expect("c05child needs --case");
    let case = case_inputs(args.seed, i);
    let scratch = args.get("scratch").unwrap_or("/tmp").to_string();
    let path = format!("{}/c05-{}-{}.agc", scratch, std::process::id(), i);
    mon::install();
    mon::set_case(i, case_json(&case, args, i));
    *STUCK_CTX.lock().unwrap() = Some((args.out.clone(), case_json(&case, args, i)));
    *mon::STUCK_HANDLER.lock().unwrap() = Some(on_stuck);
    mon::perturb_on(case.pseed, case.per_mille, 1500);
    let n_workers = case.p.threads;
    // ---- the run itself (the guard's stuck-state detector is armed inside create_logged) ----
    let mut log = Vec::new();
    let res = catch_unwind(AssertUnwindSafe(|| {
        let (r, l) = drive::create_logged(&path, &case.set, &case.p, &case.opts);
        log = l;
        r
    }));
    mon::perturb_off();
    rep.evaluations = 1;
    let mut code = 0;
    let mut viol = |rep: &mut Report, what: String| {
        rep.violation(
            &format!("C05:{}", what.split(':').next().unwrap_or("")),
            jobj(&[("what", jstr(&vcommon::clip(&what, 1500))), ("case_detail", case_json(&case, args, i)), ("events_seen", log.len().to_string())]),
        );
    };
    let finalized_ok = matches!(res, Ok(Ok(())));
    match &res {
        Ok(Ok(())) => {}
        Ok(Err(e)) => {
            viol(rep, format!("error: pushing/finalizing returned an error on valid input: {:#}", e));
            code = 3;
        }
        Err(pn) => {
            viol(rep, format!("panic: pipeline panicked: {}", drive::panic_message(pn)));
            code = 3;
        }
    }
    match mon::protocol_accounting(&log, n_workers, finalized_ok) {
        Ok(acc) => {
            rep.count("events", log.len() as u64);
            rep.count("sync_rounds", acc.rounds);
            rep.count("contigs_pushed", acc.pushes);
            rep.count("producer_blocked_on_full_queue", acc.producer_blocked);
            rep.max("max_simultaneous_waiters", acc.max_waiters);
            rep.max("max_workers", n_workers as u64);
            if acc.producer_blocked > 0 {
                rep.count("runs_with_producer_blocked", 1);
            }
        }
        Err(w) => {
            viol(rep, w);
            code = 3;
        }
    }
    if finalized_ok {
        // finalize returned Ok: every pushed contig must be in the archive
        match catch_unwind(AssertUnwindSafe(|| drive::extract_all(&path))) {
            Ok(Ok(v)) => {
                if let Some(diff) = drive::compare(&case.set, &v) {
                    viol(rep, format!("missing: finalize returned Ok but the archive does not hold what was pushed: {}", diff));
                    code = 3;
                }
            }
            Ok(Err(e)) => {
                viol(rep, format!("missing: finalize returned Ok but the archive cannot be read: {:#}", e));
                code = 3;
            }
            Err(pn) => {
                viol(rep, format!("missing: finalize returned Ok but reading the archive panicked: {}", drive::panic_message(&pn)));
                code = 3;
            }
        }
    }
    rep.nontrivial(mon::interleaving_signature(&log));
    if case.oversized {
        rep.count("runs_with_a_contig_larger_than_the_capacity", 1);
    }
    if !case.opts.extra_sync_after.is_empty() {
        rep.count("runs_with_explicit_sync_and_flush", 1);
    }
    if case.opts.extra_sync_after.contains(&0) {
        rep.count("runs_with_a_sync_round_before_the_first_push", 1);
    }
    if case.opts.empty_splitters {
        rep.count("runs_with_an_empty_splitter_set", 1);
    }
    rep.count(if case.p.single_file { "runs_single_file_mode" } else { "runs_multi_file_mode" }, 1);
    if i % 40 == 0 {
        rep.sample(jobj(&[("case_detail", case_json(&case, args, i)), ("events", log.len().to_string())]));
    }
    let _ = std::fs::remove_file(&path);
    code
}

fn case_json(case: &Case, args: &Args, i: u64) -> String {
    jobj(&[
        ("workload", jstr("vh c05child")),
        ("seed", args.seed.to_string()),
        ("case", i.to_string()),
        ("params", case.p.json()),
        ("input", case.set.brief()),
        ("explicit_sync_after_contigs", vcommon::jnums(&case.opts.extra_sync_after)),
        ("empty_splitter_set", case.opts.empty_splitters.to_string()),
        ("perturbation", jstr(&format!("{}:{}", case.pseed, case.per_mille))),
    ])
}

/// Parent: one child process per run
pub fn run(args: &Args, rep: &mut Report) {
    let n = args.get_u64("n", if args.tier_thorough { 2000 } else { 96 });
    let scratch = args.get("scratch").unwrap_or("/tmp").to_string();
    let exe = std::env::current_exe().expect("current_exe");
    let only: Option<u64> = args.case.as_ref().and_then(|c| c.parse().ok());
    for i in 0..n {
        if !args.mine(i) {
            continue;
        }
        if let Some(c) = only {
            if c != i {
                continue;
            }
        }
        let out = format!("{}/c05-out-{}-{}.json", scratch, std::process::id(), i);
        let mut cmd = std::process::Command::new(&exe);
        cmd.arg("c05child").arg("--seed").arg(args.seed.to_string()).arg("--case").arg(i.to_string()).arg("--out").arg(&out).arg(format!("scratch={}", scratch));
        let o = cli::run(&mut cmd, Duration::from_secs(150));
        let parsed = std::fs::read_to_string(&out).ok();
        let _ = std::fs::remove_file(&out);
        if o.timed_out {
            rep.evaluations += 1;
            rep.inconclusive(format!("case {}: wall-clock watchdog (150 s) fired before the child finished or its monitor reached a verdict", i));
            continue;
        }
        match (o.code, parsed) {
            (Some(0), Some(j)) | (Some(3), Some(j)) => merge_child(rep, &j),
            (code, _) => {
                rep.evaluations += 1;
                rep.inconclusive(format!("case {}: child ended with {:?} without a report: {}", i, code, o.stderr_tail()));
            }
        }
    }
    let _ = fnv(b"");
}

/// The child's report is a Report JSON; re-reading JSON in Rust without a parser is avoided by
/// passing it through verbatim: the driver merges nested reports listed under "nested".
fn merge_child(rep: &mut Report, json: &str) {
    rep.records.push(json.to_string());
}
