//! C16: every successfully created archive is fully extractable, for arbitrary FASTA text.
//! Byte-level generator, oracle written from the property text, real binary.

use crate::cli;
use crate::gen::Params;
use std::process::Command;
use vcommon::{fnv, jobj, jstr, Args, Report, Rng};

const IUPAC: &[u8] = b"ACGTNRYSWKMBDHVU";

/// One input file: its stem, the literal bytes, and the records the oracle expects from it
struct InFile {
    stem: String,
    bytes: Vec<u8>,
    /// (sample name, header, normalised sequence) for every record, in file order
    records: Vec<(String, String, Vec<u8>)>,
    features: Vec<&'static str>,
}

fn normalise(seq_lines: &[u8]) -> Vec<u8> {
    seq_lines
        .iter()
        .filter(|c| c.is_ascii_alphabetic())
        .map(|c| {
            let u = c.to_ascii_uppercase();
            if IUPAC.contains(&u) {
                u
            } else {
                b'N'
            }
        })
        .collect()
}

fn rand_header(rng: &mut Rng, sample: Option<&str>, ordinal: usize) -> String {
    // printable ASCII, no leading/trailing blank, not starting with '>', unique via the ordinal
    let body_len = rng.usize(0, 12);
    let mut body: String = (0..body_len)
        .map(|_| {
            let c = rng.range(0x20, 0x7e) as u8 as char;
            if c == '#' || c == '>' {
                '_'
            } else {
                c
            }
        })
        .collect();
    body = body.trim().to_string();
    let core = format!("r{}{}", ordinal, if body.is_empty() { String::new() } else { format!(" {}", body) });
    match sample {
        Some(s) => format!("{}#{}", s, core),
        None => {
            // at most one '#': not a PanSN header
            if rng.chance(1, 6) {
                format!("x#{}", core)
            } else {
                core
            }
        }
    }
}

fn gen_file(rng: &mut Rng, stem: &str, pansn_samples: Option<Vec<String>>, is_reference: bool) -> InFile {
    let mut bytes = Vec::new();
    let mut records = Vec::new();
    let mut features: Vec<&'static str> = Vec::new();
    let crlf = rng.chance(1, 4);
    if crlf {
        features.push("crlf");
    }
    let nl: &[u8] = if crlf { b"\r\n" } else { b"\n" };
    if rng.chance(1, 5) {
        for _ in 0..rng.usize(1, 3) {
            bytes.extend_from_slice(nl);
        }
        features.push("leading_blank_lines");
    }
    let groups: Vec<Option<String>> = match &pansn_samples {
        Some(v) => v.iter().map(|s| Some(s.clone())).collect(),
        None => vec![None],
    };
    let mut ordinal = 0usize;
    // a random base sequence shared by the records so that LZ groups form
    let base_len = rng.usize(30, 600);
    let base: Vec<u8> = (0..base_len).map(|_| b"ACGT"[rng.below(4) as usize]).collect();
    for g in groups {
        let nrec = rng.usize(1, 5);
        let mut prev_first_word: Option<String> = None;
        for _ in 0..nrec {
            ordinal += 1;
            let mut header = rand_header(rng, g.as_deref(), ordinal);
            // records of one sample whose header lines share the first word and differ only in
            // the description (">ctg1 haplotype=1" / ">ctg1 haplotype=2"): different records
            if let (Some(w), true) = (&prev_first_word, rng.chance(1, 4)) {
                header = format!("{} alt={}", w, ordinal);
                features.push("headers_sharing_the_first_word");
            }
            prev_first_word = header.split(' ').next().map(|x| x.to_string());
            bytes.push(b'>');
            bytes.extend_from_slice(header.as_bytes());
            bytes.extend_from_slice(nl);
            let kind = rng.below(12);
            let mut seq_text: Vec<u8> = Vec::new();
            if kind == 0 {
                features.push("record_without_sequence");
            } else if kind == 1 {
                features.push("record_with_only_blank_lines");
                for _ in 0..rng.usize(1, 2) {
                    seq_text.extend_from_slice(nl);
                }
            } else {
                // mutate the shared base, then sprinkle the interesting bytes
                let mut s: Vec<u8> = base.clone();
                let cut = rng.usize(1, s.len());
                s.truncate(cut);
                let nmut = rng.usize(0, 6);
                for _ in 0..nmut {
                    let p = rng.usize(0, s.len() - 1);
                    let c = match rng.below(8) {
                        0 => {
                            features.push("non_iupac_letter");
                            *rng.pick(b"XxZzEeFfIiJjLlOoPpQq")
                        }
                        1 => {
                            features.push("iupac_ambiguity");
                            *rng.pick(b"RYSWKMBDHVUryswkmbdhvu")
                        }
                        2 => {
                            features.push("digit_or_gap");
                            *rng.pick(b"0123456789-*.")
                        }
                        3 => {
                            features.push("lower_case");
                            s[p].to_ascii_lowercase()
                        }
                        4 => b'N',
                        5 => b' ',
                        _ => b"ACGT"[rng.below(4) as usize],
                    };
                    if rng.chance(1, 3) {
                        s.insert(p, c);
                    } else {
                        s[p] = c;
                    }
                }
                if !is_reference && rng.chance(1, 4) {
                    // long run of a non-IUPAC letter in a non-reference sample
                    let p = rng.usize(0, s.len() - 1);
                    for _ in 0..rng.usize(1, 5) {
                        s.insert(p, b'X');
                    }
                    features.push("non_iupac_letter");
                }
                let width = *rng.pick(&[1usize, 10, 60, 70, 100_000]);
                for (i, chunk) in s.chunks(width).enumerate() {
                    seq_text.extend_from_slice(chunk);
                    seq_text.extend_from_slice(nl);
                    if rng.chance(1, 25) && i % 2 == 0 {
                        seq_text.extend_from_slice(nl); // interior blank line
                        features.push("interior_blank_line");
                    }
                }
            }
            bytes.extend_from_slice(&seq_text);
            let sample = match &g {
                Some(s) => s.clone(),
                None => stem.to_string(),
            };
            records.push((sample, header, normalise(&seq_text)));
        }
    }
    match rng.below(5) {
        0 => {
            for _ in 0..rng.usize(1, 3) {
                bytes.extend_from_slice(nl);
            }
            features.push("trailing_blank_lines");
        }
        1 => {
            while bytes.last() == Some(&b'\n') || bytes.last() == Some(&b'\r') {
                bytes.pop();
            }
            features.push("no_final_newline");
        }
        _ => {}
    }
    features.sort();
    features.dedup();
    InFile { stem: stem.to_string(), bytes, records, features }
}

pub fn run(args: &Args, rep: &mut Report) {
    let n = args.get_u64("n", if args.tier_thorough { 2_500 } else { 144 });
    let scratch = args.get("scratch").unwrap_or("/tmp").to_string();
    let Some(ragc) = args.get("ragc").map(|s| s.to_string()) else {
        rep.inconclusive("no ragc binary given".into());
        return;
    };
    let dir = format!("{}/fa-{}-{}", scratch, std::process::id(), args.shard);
    std::fs::create_dir_all(&dir).unwrap();
    let only: Option<u64> = args.case.as_ref().and_then(|c| c.parse().ok());
    let keep = args.get("keep") == Some("1");
    for i in 0..n {
        if !args.mine(i) {
            continue;
        }
        if let Some(c) = only {
            if c != i {
                continue;
            }
        }
        let mut rng = Rng::derive(args.seed, 0xC16, i);
        let cdir = format!("{}/c{}", dir, i);
        std::fs::create_dir_all(&cdir).unwrap();
        let nfiles = rng.usize(1, 4);
        let mut files: Vec<InFile> = Vec::new();
        if nfiles == 1 {
            // single PanSN file with 1..3 samples, or one plain file
            let pansn = rng.chance(2, 3);
            // not in lexicographic order: the single-file mode only needs contiguous blocks
            let samples = if pansn { Some((0..rng.usize(1, 3)).map(|s| format!("P{}#{}", [9usize, 10, 2][s], s % 2)).collect()) } else { None };
            files.push(gen_file(&mut rng, "only", samples, true));
        } else {
            for f in 0..nfiles {
                let pansn = rng.chance(1, 3);
                let samples = if pansn { Some(vec![format!("Q{}#1", f)]) } else { None };
                files.push(gen_file(&mut rng, &format!("file{}", f), samples, f == 0));
            }
        }
        let mut paths = Vec::new();
        for f in &files {
            let p = format!("{}/{}.fa", cdir, f.stem);
            std::fs::write(&p, &f.bytes).unwrap();
            paths.push(p);
        }
        let p = Params {
            k: *rng.pick(&[9usize, 11, 15, 21]),
            segment_size: *rng.pick(&[50usize, 100, 200]),
            min_match: *rng.pick(&[15usize, 18, 20]),
            threads: rng.usize(1, 4),
            pack: *rng.pick(&[3usize, 50]),
            fallback: 0.0,
            capacity: 1 << 30,
            single_file: nfiles == 1,
            level: 17,
        };
        let arch = format!("{}/a.agc", cdir);
        let o = cli::run(&mut cli::create_cmd(&ragc, &arch, &paths, &p), cli::TIMEOUT);
        rep.evaluations += 1;
        for f in &files {
            for ft in &f.features {
                rep.count(&format!("inputs_with_{}", ft), 1);
            }
        }
        let mut bad: Option<String> = None;
        if o.timed_out {
            rep.inconclusive(format!("case {}: create hit the wall-clock watchdog", i));
        } else if !o.ok() {
            // failing with an error is always acceptable
            rep.count("creates_failed_with_error", 1);
            if o.panicked() {
                rep.count("creates_failed_with_panic_message", 1);
            }
        } else {
            rep.count("creates_succeeded", 1);
            // oracle: samples in order of first appearance; records grouped per sample in input
            // order; records with zero bases may be present (empty) or absent
            let mut want: Vec<(String, Vec<(String, Vec<u8>)>)> = Vec::new();
            for f in &files {
                for (s, h, seq) in &f.records {
                    if seq.is_empty() {
                        continue;
                    }
                    match want.iter_mut().find(|w| &w.0 == s) {
                        Some(w) => w.1.push((h.clone(), seq.clone())),
                        None => want.push((s.clone(), vec![(h.clone(), seq.clone())])),
                    }
                }
            }
            let ls = cli::run(Command::new(&ragc).arg("listset").arg(&arch), cli::TIMEOUT);
            if !ls.ok() {
                bad = Some(format!("unreadable: create exited 0 but listset fails (exit {:?}): {}", ls.code, ls.stderr_tail()));
            } else {
                let listed: Vec<String> = String::from_utf8_lossy(&ls.stdout).lines().map(|s| s.to_string()).collect();
                let want_names: Vec<&String> = want.iter().map(|w| &w.0).collect();
                for s in &listed {
                    let g = cli::run(Command::new(&ragc).arg("getset").arg(&arch).arg(s), cli::TIMEOUT);
                    if !g.ok() {
                        bad = Some(format!("extract: create exited 0 but listed sample {:?} does not extract (exit {:?}): {}", s, g.code, g.stderr_tail()));
                        break;
                    }
                    let got: Vec<(String, Vec<u8>)> = cli::parse_fasta(&g.stdout).into_iter().filter(|r| !r.1.is_empty()).collect();
                    match want.iter().find(|w| &w.0 == s) {
                        None => {
                            if !got.is_empty() {
                                bad = Some(format!("content: archive lists sample {:?} with bases, which is not in the input", s));
                                break;
                            }
                        }
                        Some(w) => {
                            if got.len() != w.1.len() {
                                bad = Some(format!("missing: sample {:?}: {} records with bases in the input, {} extracted", s, w.1.len(), got.len()));
                                break;
                            }
                            for (a, b) in w.1.iter().zip(got.iter()) {
                                if a.0 != b.0 {
                                    bad = Some(format!("content: sample {:?}: record name/order differs: {:?} in, {:?} out", s, a.0, b.0));
                                    break;
                                }
                                if a.1 != b.1 {
                                    let pos = a.1.iter().zip(b.1.iter()).position(|(x, y)| x != y).unwrap_or(a.1.len().min(b.1.len()));
                                    bad = Some(format!(
                                        "content: sample {:?} record {:?}: sequence differs from the normalised input at {} (lengths {} / {})",
                                        s,
                                        a.0,
                                        pos,
                                        a.1.len(),
                                        b.1.len()
                                    ));
                                    break;
                                }
                            }
                            if bad.is_some() {
                                break;
                            }
                        }
                    }
                }
                if bad.is_none() {
                    for wn in &want_names {
                        if !listed.contains(wn) {
                            bad = Some(format!("missing: sample {:?} has records with bases in the input but is not in the archive", wn));
                            break;
                        }
                    }
                }
                if bad.is_none() {
                    let order_listed: Vec<&String> = listed.iter().filter(|l| want_names.contains(l)).collect();
                    if order_listed != want_names {
                        bad = Some("content: samples are not listed in the order of their first appearance".into());
                    }
                }
            }
            if bad.is_none() {
                let mut h = 0u64;
                for f in &files {
                    h = h.rotate_left(11) ^ fnv(&f.bytes);
                }
                if files.iter().any(|f| !f.features.is_empty()) {
                    rep.nontrivial(h);
                }
            }
        }
        if let Some(w) = bad {
            let shown: Vec<String> = files.iter().map(|f| jobj(&[("file", jstr(&format!("{}.fa", f.stem))), ("bytes", jstr(&vcommon::clip(&String::from_utf8_lossy(&f.bytes), 1500)))])).collect();
            rep.violation(
                &format!("C16:{}", w.split(':').next().unwrap_or("")),
                jobj(&[
                    ("what", jstr(&vcommon::clip(&w, 800))),
                    ("workload", jstr("vh c16")),
                    ("seed", args.seed.to_string()),
                    ("case", i.to_string()),
                    ("params", p.json()),
                    ("files", vcommon::jarr(&shown)),
                ]),
            );
        } else if rep.samples.len() < 2 && files.len() <= 2 && files.iter().all(|f| f.bytes.len() < 400) {
            let shown: Vec<String> = files.iter().map(|f| jobj(&[("file", jstr(&format!("{}.fa", f.stem))), ("bytes", jstr(&String::from_utf8_lossy(&f.bytes)))])).collect();
            rep.sample(jobj(&[("case", i.to_string()), ("create_exit", format!("{:?}", o.code).replace("Some(", "").replace(')', "")), ("files", vcommon::jarr(&shown))]));
        }
        if !keep {
            let _ = std::fs::remove_dir_all(&cdir);
        }
    }
    if !keep {
        let _ = std::fs::remove_dir_all(&dir);
    }
}
