//! Monitors: the event sink installed into ragc's cfg(ragc_verif) hooks, per-kind counters, an
//! optional full event log, the perturbation scheduler and the stuck-state detector.

use ragc_common::verif::{self, ev};
use std::cell::Cell;
use std::collections::BTreeMap;
use std::sync::atomic::{AtomicBool, AtomicU32, AtomicU64, Ordering};
use std::sync::Mutex;
use vcommon::fnv_mix;

#[derive(Clone, Copy, Debug)]
pub struct Ev {
    pub kind: u32,
    pub a: [u64; 4],
    pub tid: u32,
}

const NK: usize = 64;
/// counters[kind][min(args[0], 7)]
static COUNTERS: [[AtomicU64; 8]; NK] = {
    #[allow(clippy::declare_interior_mutable_const)]
    const Z: AtomicU64 = AtomicU64::new(0);
    #[allow(clippy::declare_interior_mutable_const)]
    const R: [AtomicU64; 8] = [Z; 8];
    [R; NK]
};
static REORIENT_WITH_IUPAC: AtomicU64 = AtomicU64::new(0);
static SPLIT_WITH_IUPAC: AtomicU64 = AtomicU64::new(0);
static LOG_ON: AtomicBool = AtomicBool::new(false);
static LOG: Mutex<Vec<Ev>> = Mutex::new(Vec::new());
static NEXT_TID: AtomicU32 = AtomicU32::new(0);
thread_local! {
    static TID: Cell<u32> = const { Cell::new(u32::MAX) };
    static PRNG: Cell<u64> = const { Cell::new(0) };
}

pub fn tid() -> u32 {
    TID.with(|t| {
        if t.get() == u32::MAX {
            t.set(NEXT_TID.fetch_add(1, Ordering::Relaxed));
        }
        t.get()
    })
}

fn sink(kind: u32, a: [u64; 4]) {
    if (kind as usize) < NK {
        COUNTERS[kind as usize][a[0].min(7) as usize].fetch_add(1, Ordering::Relaxed);
    }
    if kind == ev::C_REORIENT && a[1] != 0 {
        REORIENT_WITH_IUPAC.fetch_add(1, Ordering::Relaxed);
    }
    if kind == ev::C_CLASSIFY && (3..=5).contains(&a[0]) && a[3] != 0 {
        SPLIT_WITH_IUPAC.fetch_add(1, Ordering::Relaxed);
    }
    if LOG_ON.load(Ordering::Relaxed) {
        let t = tid();
        LOG.lock().unwrap().push(Ev { kind, a, tid: t });
    }
}

pub fn install() {
    verif::set_sink(Some(sink));
}

pub fn log_start() {
    LOG.lock().unwrap().clear();
    LOG_ON.store(true, Ordering::SeqCst);
}

pub fn log_stop() -> Vec<Ev> {
    LOG_ON.store(false, Ordering::SeqCst);
    std::mem::take(&mut *LOG.lock().unwrap())
}

pub fn log_len() -> usize {
    LOG.lock().unwrap().len()
}

pub fn log_copy_from(start: usize) -> Vec<Ev> {
    let l = LOG.lock().unwrap();
    l[start.min(l.len())..].to_vec()
}

pub fn counter(kind: u32, arg0: u64) -> u64 {
    COUNTERS[kind as usize][arg0.min(7) as usize].load(Ordering::Relaxed)
}

pub fn counter_all(kind: u32) -> u64 {
    COUNTERS[kind as usize].iter().map(|c| c.load(Ordering::Relaxed)).sum()
}

/// Snapshot of the path counters the round-trip checks report
pub fn path_counters() -> BTreeMap<String, u64> {
    let mut m = BTreeMap::new();
    let mut put = |k: &str, v: u64| {
        m.insert(k.to_string(), v);
    };
    put("classified_known_group", counter(ev::C_CLASSIFY, 1));
    put("classified_new_group", counter(ev::C_CLASSIFY, 2));
    put("classified_split_in_two", counter(ev::C_CLASSIFY, 3));
    put("classified_assign_left", counter(ev::C_CLASSIFY, 4));
    put("classified_assign_right", counter(ev::C_CLASSIFY, 5));
    put("classified_orphan_raw_group", counter(ev::C_CLASSIFY, 6));
    put("split_or_assign_with_ambiguity_code", SPLIT_WITH_IUPAC.load(Ordering::Relaxed));
    put("one_kmer_lookup_front", counter(ev::C_ONE_KMER, 1));
    put("one_kmer_lookup_back", counter(ev::C_ONE_KMER, 2));
    put("reoriented_segments", counter_all(ev::C_REORIENT));
    put("reoriented_with_ambiguity_code", REORIENT_WITH_IUPAC.load(Ordering::Relaxed));
    put("fallback_lookups", counter_all(ev::C_FALLBACK));
    put("references_written", counter_all(ev::K_REF));
    put("full_packs_written", counter_all(ev::K_PACK));
    put("delta_dedup_hits", counter_all(ev::K_DEDUP));
    put("delta_same_as_reference", counter_all(ev::K_SAME_AS_REF));
    put("lz_segments_with_code30", counter_all(ev::K_CODE30));
    put("final_partial_packs", counter_all(ev::K_FINAL_PACK));
    put("sync_rounds_barrier1_arrivals", counter_all(ev::W_BARRIER_ARRIVE));
    put("site_lz_estimate_past_end", counter(ev::X_SITE, 1));
    put("site_pack_boundary_tokens", counter(ev::X_SITE, 2));
    put("site_fallback_k32", counter(ev::X_SITE, 3));
    put("site_footer_rejected", counter(ev::X_SITE, 4));
    m
}

// ---------------------------------------------------------------------------------------------
// guard: every in-process pipeline run is logged and watched by the stuck-state detector, so a
// run that can no longer make progress (a deadlock, or a worker thread that died) ends the
// process with a crash record instead of hanging the check
// ---------------------------------------------------------------------------------------------

static GUARD_WORKERS: AtomicU64 = AtomicU64::new(0); // 0 = no run in flight
static GUARD_THREAD: std::sync::Once = std::sync::Once::new();
static CASE: Mutex<(u64, String)> = Mutex::new((0, String::new()));
static CRASH_PATH: Mutex<Option<String>> = Mutex::new(None);
static WORKER_PANIC: Mutex<Option<String>> = Mutex::new(None);
/// Called with (description, log) when the detector fires; must not return
pub static STUCK_HANDLER: Mutex<Option<fn(&str, &[Ev])>> = Mutex::new(None);

pub fn set_crash_path(p: Option<String>) {
    *CRASH_PATH.lock().unwrap() = p;
}

/// Tell the guard which case is running (index in the shard's case space + description)
pub fn set_case(idx: u64, ctx: String) {
    *CASE.lock().unwrap() = (idx, ctx);
}

pub fn note_worker_panic(msg: String) {
    let mut g = WORKER_PANIC.lock().unwrap();
    if g.is_none() {
        *g = Some(msg);
    }
}

pub fn worker_panic() -> Option<String> {
    WORKER_PANIC.lock().unwrap().clone()
}

pub fn run_in_flight() -> bool {
    GUARD_WORKERS.load(Ordering::SeqCst) != 0
}

/// Write a crash record next to the shard's report and leave the process
pub fn crash_exit(kind: &str, msg: &str, code: i32) -> ! {
    let (idx, ctx) = CASE.lock().map(|c| c.clone()).unwrap_or((0, String::new()));
    let rec = vcommon::jobj(&[
        ("kind", vcommon::jstr(kind)),
        ("case_index", idx.to_string()),
        ("case", if ctx.is_empty() { "null".to_string() } else { ctx }),
        ("message", vcommon::jstr(&vcommon::clip(msg, 1500))),
    ]);
    if let Ok(p) = CRASH_PATH.lock() {
        if let Some(p) = p.as_ref() {
            let _ = std::fs::write(p, &rec);
        }
    }
    eprintln!("VH-CRASH {}", rec);
    std::process::exit(code);
}

/// OS-level view of the process's threads (other than the calling one): are all of them
/// sleeping in the kernel, and how much CPU time have they used so far? A thread that waits for
/// a lock or condition variable the hooks do not cover shows up here as sleeping without
/// using CPU; a thread that is merely starved of CPU shows up as runnable.
fn os_threads_all_sleeping() -> Option<(bool, u64)> {
    let me = unsafe { libc::syscall(libc::SYS_gettid) } as u64;
    let mut all_sleeping = true;
    let mut ticks = 0u64;
    for e in std::fs::read_dir("/proc/self/task").ok()? {
        let e = e.ok()?;
        let tid: u64 = e.file_name().to_string_lossy().parse().ok()?;
        if tid == me {
            continue;
        }
        let Ok(stat) = std::fs::read_to_string(e.path().join("stat")) else { continue };
        let Some(rp) = stat.rfind(')') else { continue };
        let f: Vec<&str> = stat[rp + 1..].split_whitespace().collect();
        // f[0] = state, f[11] = utime, f[12] = stime (fields 3, 14, 15 of the stat line)
        if f.len() < 13 {
            continue;
        }
        if f[0] != "S" {
            all_sleeping = false;
        }
        ticks += f[11].parse::<u64>().unwrap_or(0) + f[12].parse::<u64>().unwrap_or(0);
    }
    Some((all_sleeping, ticks))
}

fn guard_loop() {
    let mut last_len = usize::MAX;
    let mut stable_since: Option<std::time::Instant> = None;
    let mut os_quiet_since: Option<(std::time::Instant, u64)> = None;
    loop {
        std::thread::sleep(std::time::Duration::from_millis(100));
        let n = GUARD_WORKERS.load(Ordering::SeqCst) as usize;
        if n == 0 {
            last_len = usize::MAX;
            stable_since = None;
            os_quiet_since = None;
            continue;
        }
        let len = log_len();
        if len != last_len {
            last_len = len;
            stable_since = None;
            os_quiet_since = None;
            continue;
        }
        // second, OS-level predicate: no event, every thread asleep in the kernel at every look
        // and not a single tick of CPU time used, for 8 seconds: nothing in this process can run
        match os_threads_all_sleeping() {
            Some((true, ticks)) => match os_quiet_since {
                Some((since, t0)) if ticks <= t0 + 1 => {
                    if since.elapsed() >= std::time::Duration::from_millis(8000) && log_len() == len && GUARD_WORKERS.load(Ordering::SeqCst) as usize == n {
                        let log = log_copy_from(0);
                        let d = derive(&log);
                        let states: Vec<String> = d
                            .threads
                            .iter()
                            .map(|(t, s)| format!("t{}{}={:?}", t, d.worker_of_tid.get(t).map(|w| format!("(worker {})", w)).unwrap_or_default(), s))
                            .collect();
                        let desc = format!(
                            "no thread of the process was runnable or used any CPU time for 8 s and no hook event arrived (threads shown as Running are asleep in the kernel, i.e. waiting for a lock the hooks do not cover): {} | queue len={} bytes={} closed={}",
                            states.join(", "),
                            d.qlen,
                            d.qbytes,
                            d.closed
                        );
                        let h = *STUCK_HANDLER.lock().unwrap();
                        if let Some(f) = h {
                            f(&desc, &log);
                        }
                        crash_exit("stuck", &desc, 102);
                    }
                }
                _ => os_quiet_since = Some((std::time::Instant::now(), ticks)),
            },
            _ => os_quiet_since = None,
        }
        let log = log_copy_from(0);
        let d = derive(&log);
        match is_stuck(&d, n) {
            None => stable_since = None,
            Some(desc) => {
                let since = *stable_since.get_or_insert_with(std::time::Instant::now);
                // corroboration from the kernel: a worker that was spawned but has not been
                // scheduled yet (no hook event, so unknown to `derive`) is runnable, not asleep.
                // On a machine loaded far beyond its cores such a thread was seen to wait longer
                // than the stability interval; without this test the state "producer polling,
                // some workers at the barrier, the others not started yet" looked stuck.
                let asleep = |_: ()| matches!(os_threads_all_sleeping(), Some((true, _)));
                if since.elapsed() >= std::time::Duration::from_millis(4000)
                    && log_len() == len
                    && GUARD_WORKERS.load(Ordering::SeqCst) as usize == n
                    && asleep(())
                    && {
                        std::thread::sleep(std::time::Duration::from_millis(250));
                        asleep(())
                    }
                    && log_len() == len
                {
                    let desc = match worker_panic() {
                        Some(p) => format!("{} | a pipeline thread panicked: {}", desc, p),
                        None => desc,
                    };
                    let h = *STUCK_HANDLER.lock().unwrap();
                    match h {
                        Some(f) => f(&desc, &log),
                        None => crash_exit("stuck", &desc, 102),
                    }
                    // a handler that returns: fall back to leaving the process
                    crash_exit("stuck", &desc, 102);
                }
            }
        }
    }
}

/// Run one pipeline execution with the event log on and the stuck-state detector armed.
/// Returns the closure's result and the event log of the run.
pub fn run_guarded<T>(n_workers: usize, f: impl FnOnce() -> T) -> (T, Vec<Ev>) {
    GUARD_THREAD.call_once(|| {
        std::thread::Builder::new().name("vh-guard".into()).spawn(guard_loop).expect("guard thread");
    });
    *WORKER_PANIC.lock().unwrap() = None;
    log_start();
    GUARD_WORKERS.store(n_workers.max(1) as u64, Ordering::SeqCst);
    let r = f();
    GUARD_WORKERS.store(0, Ordering::SeqCst);
    let log = log_stop();
    (r, log)
}

// ---------------------------------------------------------------------------------------------
// perturbation
// ---------------------------------------------------------------------------------------------

static PERTURB_SEED: AtomicU64 = AtomicU64::new(0);
static PERTURB_PER_MILLE: AtomicU64 = AtomicU64::new(0);
static PERTURB_MAX_SLEEP_US: AtomicU64 = AtomicU64::new(500);

fn perturb(point: u32) {
    let pm = PERTURB_PER_MILLE.load(Ordering::Relaxed);
    if pm == 0 {
        return;
    }
    let r = PRNG.with(|s| {
        let mut x = s.get();
        if x == 0 {
            x = (PERTURB_SEED.load(Ordering::Relaxed) ^ (tid() as u64 + 1).wrapping_mul(0x9E37_79B9_7F4A_7C15)) | 1;
        }
        x ^= x << 13;
        x ^= x >> 7;
        x ^= x << 17;
        s.set(x);
        x.wrapping_mul(0x2545_F491_4F6C_DD1D) ^ point as u64
    });
    if r % 1000 < pm {
        match (r >> 20) % 4 {
            0 => std::thread::yield_now(),
            1 => {
                for _ in 0..((r >> 24) % 5000) {
                    std::hint::spin_loop();
                }
            }
            _ => {
                let max = PERTURB_MAX_SLEEP_US.load(Ordering::Relaxed).max(1);
                std::thread::sleep(std::time::Duration::from_micros((r >> 24) % max));
            }
        }
    }
}

pub fn perturb_on(seed: u64, per_mille: u64, max_sleep_us: u64) {
    PERTURB_SEED.store(seed, Ordering::SeqCst);
    PERTURB_PER_MILLE.store(per_mille, Ordering::SeqCst);
    PERTURB_MAX_SLEEP_US.store(max_sleep_us, Ordering::SeqCst);
    verif::set_perturb(Some(perturb));
}

pub fn perturb_off() {
    PERTURB_PER_MILLE.store(0, Ordering::SeqCst);
    verif::set_perturb(None);
}

// ---------------------------------------------------------------------------------------------
// log analysis: interleaving signature, protocol accounting, thread states
// ---------------------------------------------------------------------------------------------

/// Hash of (which worker pulled which item, in what order) and of the barrier arrival orders
pub fn interleaving_signature(log: &[Ev]) -> u64 {
    let mut h = 0xcbf2_9ce4_8422_2325u64;
    for e in log {
        match e.kind {
            ev::W_PULL => h = fnv_mix(h, 1 | (e.a[0] << 8) | (e.a[1] << 16) | (e.a[2] << 24)),
            ev::W_BARRIER_ARRIVE => h = fnv_mix(h, 2 | (e.a[0] << 8) | (e.a[1] << 16) | (e.a[2] << 40)),
            ev::Q_WAIT_FULL => h = fnv_mix(h, 3),
            _ => {}
        }
    }
    h
}

#[derive(Clone, Copy, Debug, PartialEq)]
pub enum TState {
    Running,
    WaitFull(u64),
    WaitEmpty,
    AtBarrier(u64, u64), // (round, phase)
    Polling,
    Joining(u64),
    Exited,
}

/// Per-thread state as implied by the log, plus the queue state implied by the last queue event
pub struct Derived {
    pub threads: BTreeMap<u32, TState>,
    pub worker_of_tid: BTreeMap<u32, u64>,
    pub qlen: u64,
    pub qbytes: u64,
    pub closed: bool,
}

pub fn derive(log: &[Ev]) -> Derived {
    let mut d = Derived { threads: BTreeMap::new(), worker_of_tid: BTreeMap::new(), qlen: 0, qbytes: 0, closed: false };
    for e in log {
        let st = match e.kind {
            ev::Q_WAIT_FULL => Some(TState::WaitFull(e.a[0])),
            ev::Q_WAIT_EMPTY => Some(TState::WaitEmpty),
            ev::Q_WAKE_FULL | ev::Q_WAKE_EMPTY => Some(TState::Running),
            ev::W_BARRIER_ARRIVE => Some(TState::AtBarrier(e.a[1], e.a[2])),
            ev::W_BARRIER_LEAVE => Some(TState::Running),
            ev::P_POLL_BEGIN => Some(TState::Polling),
            ev::P_POLL_END => Some(TState::Running),
            ev::P_JOIN => Some(TState::Joining(e.a[0])),
            ev::P_FINALIZE if e.a[0] >= 3 => Some(TState::Running),
            ev::W_EXIT => Some(TState::Exited),
            _ => None,
        };
        match e.kind {
            ev::Q_ADMIT | ev::Q_TAKE | ev::Q_WAIT_FULL | ev::Q_WAKE_FULL | ev::Q_WAIT_EMPTY | ev::Q_WAKE_EMPTY | ev::Q_CLOSE => {
                d.qlen = e.a[1];
                d.qbytes = e.a[2];
                if e.kind == ev::Q_CLOSE {
                    d.closed = true;
                }
            }
            _ => {}
        }
        if matches!(e.kind, ev::W_PULL | ev::W_BARRIER_ARRIVE | ev::W_EXIT | ev::W_SEGMENTED) {
            d.worker_of_tid.insert(e.tid, e.a[0]);
        }
        match st {
            Some(s) => {
                d.threads.insert(e.tid, s);
            }
            None => {
                // any other event from a thread means it is running, unless it is an event that
                // is emitted while the thread stays in its blocked state (none are)
                let cur = d.threads.get(&e.tid).copied();
                if !matches!(cur, Some(TState::Exited)) {
                    d.threads.insert(e.tid, TState::Running);
                }
            }
        }
    }
    d
}

/// The deadlock predicate over a derived state: no thread is running and none can make
/// progress on its own. `n_workers` is the configured worker count.
pub fn is_stuck(d: &Derived, n_workers: usize) -> Option<String> {
    if d.threads.is_empty() {
        return None;
    }
    // all workers at the same barrier = the barrier is opening
    let mut at: BTreeMap<(u64, u64), usize> = BTreeMap::new();
    for s in d.threads.values() {
        if let TState::AtBarrier(r, p) = s {
            *at.entry((*r, *p)).or_insert(0) += 1;
        }
    }
    if at.values().any(|&c| c >= n_workers) {
        return None;
    }
    let exited: Vec<u64> = d
        .threads
        .iter()
        .filter(|(_, s)| **s == TState::Exited)
        .filter_map(|(t, _)| d.worker_of_tid.get(t).copied())
        .collect();
    for (_t, s) in d.threads.iter() {
        match s {
            TState::Running => return None,
            TState::Polling => {
                if d.qlen == 0 {
                    return None; // the poll loop sees an empty queue on its next look
                }
            }
            TState::Joining(w) => {
                if exited.contains(w) {
                    return None;
                }
            }
            TState::WaitFull(_) | TState::WaitEmpty | TState::AtBarrier(..) | TState::Exited => {}
        }
    }
    let desc: Vec<String> = d
        .threads
        .iter()
        .map(|(t, s)| format!("t{}{}={:?}", t, d.worker_of_tid.get(t).map(|w| format!("(worker {})", w)).unwrap_or_default(), s))
        .collect();
    Some(format!(
        "no thread can run: {} | queue len={} bytes={} closed={}",
        desc.join(", "),
        d.qlen,
        d.qbytes,
        d.closed
    ))
}

/// Protocol accounting over a complete log of one compression run.
/// Returns Err(what) on a breach, Ok(summary counters) otherwise.
pub struct Accounting {
    pub rounds: u64,
    pub pushes: u64,
    pub pulls_contig: u64,
    pub pulls_token: u64,
    pub producer_blocked: u64,
    pub max_waiters: u64,
    pub workers_exited: u64,
}

pub fn protocol_accounting(log: &[Ev], n_workers: usize, finalized_ok: bool) -> Result<Accounting, String> {
    let mut acc = Accounting { rounds: 0, pushes: 0, pulls_contig: 0, pulls_token: 0, producer_blocked: 0, max_waiters: 0, workers_exited: 0 };
    let mut pushed: BTreeMap<u64, u64> = BTreeMap::new(); // sequence -> count (P_PUSH_END)
    let mut pulled: BTreeMap<u64, u64> = BTreeMap::new();
    let mut segmented: BTreeMap<u64, u64> = BTreeMap::new();
    let mut tokens_announced: u64 = 0;
    // per worker: list of (round, phase) arrivals and leaves
    let mut arrive: BTreeMap<u64, Vec<(u64, u64)>> = BTreeMap::new();
    let mut leave: BTreeMap<u64, Vec<(u64, u64)>> = BTreeMap::new();
    let mut tokens_by_worker_round: BTreeMap<(u64, u64), u64> = BTreeMap::new();
    let mut worker_round: BTreeMap<u64, u64> = BTreeMap::new();
    let mut exited: BTreeMap<u64, (u64, u64)> = BTreeMap::new();
    let mut waiters: i64 = 0;
    for e in log {
        match e.kind {
            ev::P_PUSH_END => {
                *pushed.entry(e.a[0]).or_insert(0) += 1;
                acc.pushes += 1;
            }
            ev::P_TOKENS => tokens_announced += e.a[0],
            ev::W_PULL => {
                if exited.contains_key(&e.a[0]) {
                    return Err(format!("exit: worker {} pulled an item after it had exited", e.a[0]));
                }
                if e.a[1] == 1 {
                    acc.pulls_token += 1;
                    let r = worker_round.entry(e.a[0]).or_insert(0);
                    *r += 1;
                    *tokens_by_worker_round.entry((e.a[0], *r)).or_insert(0) += 1;
                } else {
                    acc.pulls_contig += 1;
                    *pulled.entry(e.a[2]).or_insert(0) += 1;
                }
            }
            ev::W_SEGMENTED => *segmented.entry(e.a[1]).or_insert(0) += 1,
            ev::W_BARRIER_ARRIVE => arrive.entry(e.a[0]).or_default().push((e.a[1], e.a[2])),
            ev::W_BARRIER_LEAVE => leave.entry(e.a[0]).or_default().push((e.a[1], e.a[2])),
            ev::W_EXIT => {
                exited.insert(e.a[0], (e.a[1], e.a[2]));
            }
            ev::Q_WAIT_FULL => {
                acc.producer_blocked += 1;
                waiters += 1;
            }
            ev::Q_WAIT_EMPTY => waiters += 1,
            ev::Q_WAKE_FULL | ev::Q_WAKE_EMPTY => waiters -= 1,
            _ => {}
        }
        acc.max_waiters = acc.max_waiters.max(waiters.max(0) as u64);
    }
    if !finalized_ok {
        return Ok(acc);
    }
    // conservation: every contig pushed was pulled and segmented exactly once
    for (seq, n) in &pushed {
        if *n != 1 {
            return Err(format!("conservation: sequence {} pushed {} times", seq, n));
        }
        match pulled.get(seq) {
            Some(1) => {}
            Some(k) => return Err(format!("conservation: contig sequence {} pulled {} times", seq, k)),
            None => return Err(format!("conservation: contig sequence {} was pushed but never pulled", seq)),
        }
        if segmented.get(seq) != Some(&1) {
            return Err(format!("conservation: contig sequence {} was pulled but its segments were not buffered exactly once", seq));
        }
    }
    for seq in pulled.keys() {
        if !pushed.contains_key(seq) {
            return Err(format!("conservation: contig sequence {} pulled but never pushed", seq));
        }
    }
    if acc.pulls_token != tokens_announced {
        return Err(format!("tokens: {} sync tokens queued, {} pulled", tokens_announced, acc.pulls_token));
    }
    if tokens_announced % n_workers as u64 != 0 {
        return Err(format!("tokens: {} sync tokens queued for {} workers", tokens_announced, n_workers));
    }
    let rounds = tokens_announced / n_workers as u64;
    acc.rounds = rounds;
    // "every worker enters and leaves every synchronisation round": the number of barriers per
    // round is the implementation's business; what is demanded is that every worker passes the
    // same barriers as worker 0, leaves each one it entered, and is seen in every round
    let reference = arrive.get(&0).cloned().unwrap_or_default();
    for w in 0..n_workers as u64 {
        let a = arrive.get(&w).cloned().unwrap_or_default();
        let l = leave.get(&w).cloned().unwrap_or_default();
        if a != reference {
            return Err(format!("rounds: worker {} arrived at {} barriers, worker 0 at {} ({} rounds)", w, a.len(), reference.len(), rounds));
        }
        if l != a {
            return Err(format!("rounds: worker {} entered {} barriers and left {}", w, a.len(), l.len()));
        }
        for r in 1..=rounds {
            if !a.iter().any(|(ar, _)| *ar == r) {
                return Err(format!("rounds: worker {} passed no barrier of round {} ({} rounds were announced)", w, r, rounds));
            }
        }
        for r in 1..=rounds {
            if tokens_by_worker_round.get(&(w, r)) != Some(&1) {
                return Err(format!("rounds: worker {} did not take exactly one token in round {}", w, r));
            }
        }
        match exited.get(&w) {
            Some((_, r)) if *r == rounds => {}
            Some((_, r)) => return Err(format!("exit: worker {} exited after {} rounds, {} were run", w, r, rounds)),
            None => return Err(format!("exit: worker {} never exited", w)),
        }
    }
    acc.workers_exited = exited.len() as u64;
    Ok(acc)
}
