fn main() {}
