//! vh: workloads that run the real ragc pipeline (library in-process and the `ragc` binary as a
//! subprocess) under monitors. One workload per property family; see /verif/DESIGN.md.
mod cli;
mod drive;
mod gen;
mod mon;
mod p_cli;
mod p_compress;
mod p_determinism;
mod p_fasta;
mod p_present;
mod p_profile;
mod p_range;
mod p_reader;
mod p_roundtrip;
mod p_splitters;
mod p_termination;
mod p_trunc;
mod p_writefail;

use std::alloc::{GlobalAlloc, Layout, System};
use std::sync::atomic::{AtomicUsize, Ordering};
use vcommon::{Args, Report};

/// Largest single allocation request since the last reset (C14's allocation monitor)
pub static ALLOC_MAX: AtomicUsize = AtomicUsize::new(0);

/// Optional hard limits (c14child sets them): a single request above ALLOC_CAP_SINGLE, or a
/// request that would take the live total above ALLOC_CAP_LIVE, is refused (null), which ends the
/// process with "memory allocation of N bytes failed" - the parent attributes that to the prefix
/// being opened. Without limits a runaway allocation loop would take the whole machine down.
pub static ALLOC_CAP_SINGLE: AtomicUsize = AtomicUsize::new(usize::MAX);
pub static ALLOC_CAP_LIVE: AtomicUsize = AtomicUsize::new(usize::MAX);
pub static ALLOC_LIVE: AtomicUsize = AtomicUsize::new(0);

#[inline]
fn admit(n: usize) -> bool {
    ALLOC_MAX.fetch_max(n, Ordering::Relaxed);
    if n > ALLOC_CAP_SINGLE.load(Ordering::Relaxed) {
        return false;
    }
    let live = ALLOC_LIVE.fetch_add(n, Ordering::Relaxed) + n;
    if live > ALLOC_CAP_LIVE.load(Ordering::Relaxed) {
        ALLOC_LIVE.fetch_sub(n, Ordering::Relaxed);
        return false;
    }
    true
}

struct CountingAlloc;
unsafe impl GlobalAlloc for CountingAlloc {
    unsafe fn alloc(&self, l: Layout) -> *mut u8 {
        if !admit(l.size()) {
            return std::ptr::null_mut();
        }
        System.alloc(l)
    }
    unsafe fn dealloc(&self, p: *mut u8, l: Layout) {
        ALLOC_LIVE.fetch_sub(l.size(), Ordering::Relaxed);
        System.dealloc(p, l)
    }
    unsafe fn alloc_zeroed(&self, l: Layout) -> *mut u8 {
        if !admit(l.size()) {
            return std::ptr::null_mut();
        }
        System.alloc_zeroed(l)
    }
    unsafe fn realloc(&self, p: *mut u8, l: Layout, n: usize) -> *mut u8 {
        if !admit(n) {
            return std::ptr::null_mut();
        }
        let q = System.realloc(p, l, n);
        if q.is_null() {
            ALLOC_LIVE.fetch_sub(n, Ordering::Relaxed);
        } else {
            ALLOC_LIVE.fetch_sub(l.size(), Ordering::Relaxed);
        }
        q
    }
}
#[global_allocator]
static GLOBAL: CountingAlloc = CountingAlloc;

fn main() {
    let argv: Vec<String> = std::env::args().collect();
    let args = Args::parse(&argv);
    // Panics on named threads (the main thread and the harness's own threads) are caught and
    // judged by the workloads. A panic on an unnamed thread is a ragc pipeline worker dying:
    // nothing can catch it and the run it belongs to can never finish, so the message is kept
    // for the stuck-state detector (c05child) or the process ends with a crash record.
    let _ = rayon::ThreadPoolBuilder::new().thread_name(|i| format!("vh-rayon-{}", i)).build_global();
    mon::set_crash_path(args.out.as_ref().map(|o| format!("{}.crash", o)));
    let is_c05_child = args.workload == "c05child";
    let loud = args.get("loud") == Some("1");
    std::panic::set_hook(Box::new(move |info| {
        let named = std::thread::current().name().is_some();
        let msg = format!("{}", info);
        if loud {
            eprintln!("{}", msg);
        }
        if !named && mon::run_in_flight() {
            mon::note_worker_panic(msg.clone());
            if !is_c05_child {
                mon::crash_exit("worker-panic", &msg, 101);
            }
        }
    }));
    let mut rep = Report::new();
    let mut code = 0;
    match args.workload.as_str() {
        "c01" => p_roundtrip::run(&args, &mut rep, p_roundtrip::Which::C01),
        "c02" => p_roundtrip::run(&args, &mut rep, p_roundtrip::Which::C02),
        "c04" => p_determinism::run(&args, &mut rep),
        "c05" => p_termination::run(&args, &mut rep),
        "c05child" => code = p_termination::child(&args, &mut rep),
        "c07" => p_range::run(&args, &mut rep),
        "c08" => p_reader::run(&args, &mut rep),
        "c11" => p_splitters::run(&args, &mut rep),
        "c12" => p_compress::run(&args, &mut rep),
        "c14" => p_trunc::run(&args, &mut rep),
        "c14prep" => p_trunc::prep(&args, &mut rep),
        "c14child" => code = p_trunc::child(&args, &mut rep),
        "c15" => p_writefail::run(&args, &mut rep),
        "c15child" => std::process::exit(p_writefail::child(&args)),
        "c16" => p_fasta::run(&args, &mut rep),
        "c17" => p_cli::run(&args, &mut rep),
        "c18" => p_profile::run(&args, &mut rep),
        "c19" => p_present::run(&args, &mut rep),
        other => {
            eprintln!("vh: unknown workload {:?}", other);
            std::process::exit(2);
        }
    }
    args.write_out(&rep);
    std::process::exit(code);
}
