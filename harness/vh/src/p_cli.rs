//! C17: CLI extraction composes and exit codes tell the truth.

use crate::cli::{self, Presentation};
use crate::gen::{self, Params, SampleSet, Shape};
use std::collections::HashMap;
use std::process::Command;
use vcommon::{fnv, jobj, jstr, Args, Report, Rng};

fn viol(rep: &mut Report, args: &Args, case: u64, w: &str, argv: &[String], p: &Params, set: &SampleSet) {
    rep.violation(
        &format!("C17:{}", w.split(':').next().unwrap_or("")),
        jobj(&[
            ("what", jstr(&vcommon::clip(w, 900))),
            ("workload", jstr("vh c17")),
            ("seed", args.seed.to_string()),
            ("case", case.to_string()),
            ("command", jstr(&argv.join(" "))),
            ("params", p.json()),
            ("input", set.brief()),
        ]),
    );
}

pub fn run(args: &Args, rep: &mut Report) {
    let thorough = args.tier_thorough;
    let scratch = args.get("scratch").unwrap_or("/tmp").to_string();
    let Some(ragc) = args.get("ragc").map(|s| s.to_string()) else {
        rep.inconclusive("no ragc binary given".into());
        return;
    };
    let dir = format!("{}/cl-{}-{}", scratch, std::process::id(), args.shard);
    std::fs::create_dir_all(&dir).unwrap();
    let narch = args.get_u64("n", if thorough { 200 } else { 16 });
    let only: Option<u64> = args.case.as_ref().and_then(|c| c.parse().ok());
    let mut exit_codes: HashMap<String, u64> = HashMap::new();
    for i in 0..narch {
        if !args.mine(i) {
            continue;
        }
        if let Some(c) = only {
            if c != i {
                continue;
            }
        }
        let mut rng = Rng::derive(args.seed, 0xC17, i);
        let mut p = gen::params(&mut rng, true);
        p.fallback = 0.0;
        p.capacity = 1 << 30;
        let shape = Shape { max_samples: 6, max_contigs: 4, max_contig_len: 2500, iupac: true, allow_many_samples: false };
        let mut set = gen::sample_set(&mut rng, &p, &shape);
        // sample names with shared prefixes so that -p matches 1..all samples
        for (j, s) in set.samples.iter_mut().enumerate() {
            let sn = format!("{}{}#{}", if j % 2 == 0 { "AAA" } else { "AAB" }, j, j % 2);
            for (cj, c) in s.contigs.iter_mut().enumerate() {
                let desc = c.0.split_once(' ').map(|(_, d)| format!(" {}", d)).unwrap_or_default();
                c.0 = format!("{}#c{}{}", sn, cj, desc);
            }
            s.name = sn;
        }
        set.pansn = true;
        let cdir = format!("{}/c{}", dir, i);
        std::fs::create_dir_all(&cdir).unwrap();
        let mut pr = Presentation::plain();
        pr.single_file = p.single_file;
        let (inputs, _) = cli::write_inputs(&cdir, &set, &pr, &mut rng, "");
        let arch = format!("{}/a.agc", cdir);
        // ---- create flag matrix: exit 0 must mean "archive exists and lists every sample" ----
        let variants: Vec<Vec<String>> = vec![
            vec![],
            vec!["--batch".into()],
            vec!["--adaptive".into()],
            vec!["--concatenated".into()],
            vec!["-t".into(), rng.usize(1, 16).to_string()],
            vec!["--queue-capacity".into(), (*rng.pick(&["0", "1", "1K", "64K", "100G"])).to_string()],
            vec!["-l".into(), rng.usize(1, 60).to_string()],
            vec!["--batch".into(), "--adaptive".into()],
        ];
        let names: Vec<String> = set.samples.iter().map(|s| s.name.clone()).collect();
        for (vi, extra) in variants.iter().enumerate() {
            if vi > 0 && !thorough && (i + vi as u64) % 3 != 0 {
                continue;
            }
            let out = if vi == 0 { arch.clone() } else { format!("{}/v{}.agc", cdir, vi) };
            let mut cmd = cli::create_cmd(&ragc, &out, &inputs, &p);
            cmd.args(extra);
            let argv: Vec<String> = std::iter::once("create".to_string()).chain(extra.iter().cloned()).collect();
            let o = cli::run(&mut cmd, cli::TIMEOUT);
            rep.evaluations += 1;
            rep.count("create_invocations", 1);
            *exit_codes.entry(format!("create {} -> {:?}", extra.first().cloned().unwrap_or_default(), o.code)).or_insert(0) += 1;
            if o.timed_out {
                // a create that never returns is C05's business; here it is only "no verdict"
                rep.inconclusive(format!("case {}: `ragc create {}` hit the wall-clock watchdog", i, extra.join(" ")));
                let _ = std::fs::remove_file(&out);
                continue;
            }
            if o.ok() {
                let ls = cli::run(Command::new(&ragc).arg("listset").arg(&out), cli::TIMEOUT);
                let listed: Vec<String> = String::from_utf8_lossy(&ls.stdout).lines().map(|s| s.to_string()).collect();
                if !std::path::Path::new(&out).exists() {
                    viol(rep, args, i, "create-exit0: create exited 0 but there is no archive", &argv, &p, &set);
                } else if !ls.ok() || listed != names {
                    viol(rep, args, i, &format!("create-exit0: create exited 0 but the archive lists {:?} instead of every input sample (listset exit {:?})", listed, ls.code), &argv, &p, &set);
                }
            }
            if vi > 0 {
                let _ = std::fs::remove_file(&out);
            }
        }
        if !std::path::Path::new(&arch).exists() {
            rep.inconclusive(format!("case {}: plain create did not produce an archive", i));
            let _ = std::fs::remove_dir_all(&cdir);
            continue;
        }
        // ---- single-sample extractions: the building blocks of the composition oracle ----
        let mut single: HashMap<String, Vec<u8>> = HashMap::new();
        let mut ok = true;
        for s in &names {
            let o = cli::run(Command::new(&ragc).arg("getset").arg(&arch).arg(s), cli::TIMEOUT);
            rep.evaluations += 1;
            if !o.ok() {
                viol(rep, args, i, &format!("exit: getset of existing sample {:?} failed (exit {:?}): {}", s, o.code, o.stderr_tail()), &["getset".into(), s.clone()], &p, &set);
                ok = false;
                break;
            }
            single.insert(s.clone(), o.stdout);
        }
        if ok {
            // ---- composition: lists with repeats, prefixes, stdout and -o ----
            let nreq = if thorough { 10 } else { 5 };
            for r in 0..nreq {
                let to_file = r % 2 == 1;
                let use_prefix = r % 3 == 2;
                let (argv_tail, expect_names): (Vec<String>, Vec<String>) = if use_prefix {
                    let pre = (*rng.pick(&["AAA", "AAB", "AA", "A", "AAA0", "AAB1#1"])).to_string();
                    let m: Vec<String> = names.iter().filter(|n| n.starts_with(&pre)).cloned().collect();
                    (vec!["-p".into(), pre], m)
                } else {
                    let l = rng.usize(1, 5);
                    let mut req: Vec<String> = (0..l).map(|_| rng.pick(&names).clone()).collect();
                    if r % 4 == 0 {
                        // the same name twice in a row, and again later
                        let again = req[0].clone();
                        req.insert(0, again.clone());
                        req.push(rng.pick(&names).clone());
                        req.push(again);
                        rep.count("getset_with_a_name_repeated_back_to_back", 1);
                    }
                    (req.clone(), req)
                };
                let outf = format!("{}/out{}.fa", cdir, r);
                let mut cmd = Command::new(&ragc);
                cmd.arg("getset").arg(&arch).args(&argv_tail);
                if to_file {
                    cmd.arg("-o").arg(&outf);
                }
                let mut argv: Vec<String> = vec!["getset".into()];
                argv.extend(argv_tail.iter().cloned());
                if to_file {
                    argv.push("-o <file>".into());
                }
                let o = cli::run(&mut cmd, cli::TIMEOUT);
                rep.evaluations += 1;
                rep.count(if use_prefix { "getset_by_prefix" } else { "getset_by_names" }, 1);
                rep.count(if to_file { "getset_to_file" } else { "getset_to_stdout" }, 1);
                if expect_names.is_empty() {
                    // a prefix that matches nothing is a failure and must say so
                    if o.ok() {
                        viol(rep, args, i, "exit: getset with a prefix that matches no sample exited 0", &argv, &p, &set);
                    }
                    continue;
                }
                if !o.ok() {
                    viol(rep, args, i, &format!("exit: getset of existing samples failed (exit {:?}): {}", o.code, o.stderr_tail()), &argv, &p, &set);
                    continue;
                }
                let got = if to_file { std::fs::read(&outf).unwrap_or_default() } else { o.stdout.clone() };
                let mut want = Vec::new();
                for n in &expect_names {
                    want.extend_from_slice(&single[n]);
                }
                if got != want {
                    viol(
                        rep,
                        args,
                        i,
                        &format!(
                            "composition: output for {} requested samples has {} bytes / {} records, the concatenated single-sample extractions have {} bytes / {} records",
                            expect_names.len(),
                            got.len(),
                            cli::parse_fasta(&got).len(),
                            want.len(),
                            cli::parse_fasta(&want).len()
                        ),
                        &argv,
                        &p,
                        &set,
                    );
                } else if expect_names.len() >= 2 {
                    rep.nontrivial(fnv(&got) ^ r as u64);
                }
                let _ = std::fs::remove_file(&outf);
            }
        }
        // ---- failures must give a non-zero exit ----
        let trunc = format!("{}/trunc.agc", cdir);
        let full = std::fs::read(&arch).unwrap_or_default();
        std::fs::write(&trunc, &full[..full.len() / 2]).unwrap();
        let notagc = format!("{}/notagc.agc", cdir);
        std::fs::write(&notagc, b">this is a FASTA file, not an archive\nACGT\n").unwrap();
        let missing = format!("{}/does-not-exist.agc", cdir);
        let first = names[0].clone();
        let last = names.last().unwrap().clone();
        let fails: Vec<Vec<String>> = vec![
            vec!["getset".into(), arch.clone(), "nosuch".into()],
            vec!["getset".into(), arch.clone(), "nosuch".into(), first.clone()],
            vec!["getset".into(), arch.clone(), last.clone(), "nosuch".into()],
            vec!["getset".into(), arch.clone()],
            vec!["getset".into(), missing.clone(), first.clone()],
            vec!["getset".into(), trunc.clone(), first.clone()],
            vec!["getset".into(), notagc.clone(), first.clone()],
            vec!["getset".into(), cdir.clone(), first.clone()],
            vec!["listset".into(), missing.clone()],
            vec!["listset".into(), trunc.clone()],
            vec!["listset".into(), notagc.clone()],
            vec!["listset".into(), cdir.clone()],
            vec!["listctg".into(), arch.clone(), "nosuch".into()],
            vec!["listctg".into(), trunc.clone(), first.clone()],
            vec!["ctglen".into(), arch.clone(), "-s".into(), first.clone(), "-c".into(), "no such contig".into()],
            vec!["getrange".into(), arch.clone(), "-s".into(), "nosuch".into(), "-c".into(), "x".into(), "--start".into(), "0".into()],
            vec!["create".into(), "-o".into(), format!("{}/x.agc", cdir), format!("{}/no-such-input.fa", cdir)],
            vec!["create".into(), "-o".into(), format!("{}/no-such-dir/x.agc", cdir), inputs[0].clone()],
            // the output cannot be written (every write to /dev/full fails with ENOSPC)
            vec!["getset".into(), arch.clone(), first.clone(), "-o".into(), "/dev/full".into()],
            vec!["getset".into(), arch.clone(), "-o".into(), "/dev/full".into(), first.clone(), last.clone()],
        ];
        // an input that cannot be read to its end (gzip stream cut off), in every position
        {
            let victim = inputs.last().unwrap().clone();
            let text = std::fs::read(&victim).unwrap_or_default();
            let gz = cli::gzip_members(&text, &[], false);
            let cut = format!("{}/cut{}.fa.gz", cdir, i);
            std::fs::write(&cut, &gz[..gz.len() * 3 / 5]).unwrap();
            let mut orders: Vec<Vec<String>> = Vec::new();
            if inputs.len() >= 2 {
                let mut mid = inputs.clone();
                let l = mid.len();
                mid[l - 1] = cut.clone(); // last position
                orders.push(mid);
                if inputs.len() >= 3 {
                    // middle position: the other inputs keep their order, the cut file comes second
                    let mut v: Vec<String> = inputs[..l - 1].to_vec();
                    v.insert(1, cut.clone());
                    orders.push(v);
                }
            } else {
                orders.push(vec![cut.clone()]);
            }
            for ord in orders {
                let out = format!("{}/cutout.agc", cdir);
                let mut cmd = cli::create_cmd(&ragc, &out, &ord, &p);
                let o = cli::run(&mut cmd, cli::TIMEOUT);
                rep.evaluations += 1;
                rep.count("failing_invocations", 1);
                rep.count("creates_with_an_unreadable_input", 1);
                let pos = ord.iter().position(|x| *x == cut).unwrap_or(0);
                *exit_codes.entry(format!("create with a cut-off .gz input (must fail) -> {:?}", o.code)).or_insert(0) += 1;
                if o.timed_out {
                    rep.inconclusive(format!("case {}: create with a cut-off input hit the wall-clock watchdog", i));
                } else if o.ok() {
                    viol(rep, args, i, &format!("exit: create exited 0 although input {} of {} is a gzip file that ends in the middle of its stream", pos + 1, ord.len()), &["create".into(), format!("<cut-off .fa.gz as input {} of {}>", pos + 1, ord.len())], &p, &set);
                }
                let _ = std::fs::remove_file(&out);
            }
        }
        for argv in fails {
            if !thorough && rng.chance(1, 2) {
                continue;
            }
            let o = cli::run(Command::new(&ragc).args(&argv), cli::TIMEOUT);
            rep.evaluations += 1;
            rep.count("failing_invocations", 1);
            let short: Vec<String> = argv.iter().map(|a| a.replace(&cdir, "<dir>")).collect();
            *exit_codes.entry(format!("{} (must fail) -> {:?}", short[0], o.code)).or_insert(0) += 1;
            if o.timed_out {
                rep.inconclusive(format!("case {}: `ragc {}` hit the wall-clock watchdog", i, short.join(" ")));
            } else if o.ok() {
                viol(rep, args, i, &format!("exit: a failing invocation exited 0: ragc {}", short.join(" ")), &short, &p, &set);
            }
        }
        if rep.samples.len() < 2 {
            rep.sample(jobj(&[("case", i.to_string()), ("samples", vcommon::jarr(&names.iter().map(|n| jstr(n)).collect::<Vec<_>>())), ("params", p.json())]));
        }
        let _ = std::fs::remove_dir_all(&cdir);
    }
    for (k, v) in exit_codes {
        rep.count(&format!("exit[{}]", k), v);
    }
    let _ = std::fs::remove_dir_all(&dir);
}
