//! Driving the real `ragc` binary: FASTA writers (plain / gzip / multi-member gzip), process
//! runner with a wall-clock watchdog, FASTA output parser.

use crate::gen::{Params, SampleSet};
use flate2::write::GzEncoder;
use flate2::Compression;
use std::io::Write;
use std::process::{Command, Stdio};
use std::time::{Duration, Instant};
use vcommon::Rng;

pub const LETTERS: &[u8; 16] = b"ACGTNRYSWKMBDHVU";

pub fn codes_to_ascii(codes: &[u8]) -> Vec<u8> {
    codes.iter().map(|&c| if c < 16 { LETTERS[c as usize] } else { b'N' }).collect()
}

pub fn ascii_to_codes(s: &[u8]) -> Vec<u8> {
    s.iter()
        .map(|&c| match LETTERS.iter().position(|&l| l == c.to_ascii_uppercase()) {
            Some(p) => p as u8,
            None => 30,
        })
        .collect()
}

#[derive(Clone, Debug)]
pub struct Presentation {
    pub gz: u8,          // 0 plain, 1 gzip single member, 2 gzip multi-member
    pub width: usize,    // line width
    pub crlf: bool,
    pub case: u8,        // 0 upper, 1 lower, 2 mixed
    pub single_file: bool,
    pub final_newline: bool,
}

impl Presentation {
    pub fn plain() -> Self {
        Presentation { gz: 0, width: 60, crlf: false, case: 0, single_file: false, final_newline: true }
    }
    pub fn describe(&self) -> String {
        format!(
            "{}{} width={} {} {}{}",
            ["plain", "gzip", "gzip-multimember"][self.gz as usize],
            if self.single_file { " one-PanSN-file" } else { " file-per-sample" },
            self.width,
            if self.crlf { "CRLF" } else { "LF" },
            ["upper", "lower", "mixed"][self.case as usize],
            if self.final_newline { "" } else { " no-final-newline" }
        )
    }
}

pub fn fasta_text(contigs: &[(String, Vec<u8>)], pr: &Presentation, rng: &mut Rng) -> Vec<u8> {
    let nl: &[u8] = if pr.crlf { b"\r\n" } else { b"\n" };
    let mut out = Vec::new();
    for (name, codes) in contigs {
        out.push(b'>');
        out.extend_from_slice(name.as_bytes());
        out.extend_from_slice(nl);
        let mut a = codes_to_ascii(codes);
        match pr.case {
            1 => a.make_ascii_lowercase(),
            2 => {
                for c in a.iter_mut() {
                    if rng.chance(1, 2) {
                        *c = c.to_ascii_lowercase();
                    }
                }
            }
            _ => {}
        }
        for chunk in a.chunks(pr.width.max(1)) {
            out.extend_from_slice(chunk);
            out.extend_from_slice(nl);
        }
    }
    if !pr.final_newline {
        while out.last() == Some(&b'\n') || out.last() == Some(&b'\r') {
            out.pop();
        }
    }
    out
}

/// gzip with member boundaries at the given cut points (sorted offsets into `data`);
/// `empty_members` adds zero-length members here and there, including at the very end
pub fn gzip_members(data: &[u8], cuts: &[usize], empty_members: bool) -> Vec<u8> {
    let mut out = Vec::new();
    let mut prev = 0usize;
    let mut pieces: Vec<&[u8]> = Vec::new();
    for &c in cuts {
        let c = c.min(data.len());
        if c >= prev {
            pieces.push(&data[prev..c]);
            prev = c;
        }
    }
    pieces.push(&data[prev..]);
    for (i, p) in pieces.iter().enumerate() {
        let mut e = GzEncoder::new(Vec::new(), Compression::new(((i % 3) * 3 + 1) as u32));
        e.write_all(p).unwrap();
        out.extend_from_slice(&e.finish().unwrap());
        if empty_members && i % 2 == 0 {
            let e = GzEncoder::new(Vec::new(), Compression::default());
            out.extend_from_slice(&e.finish().unwrap());
        }
    }
    if empty_members {
        let e = GzEncoder::new(Vec::new(), Compression::default());
        out.extend_from_slice(&e.finish().unwrap());
    }
    out
}

/// Writes the sample set under `dir` in the given presentation; returns the input paths in order
/// and, for gzip, the member cut positions that were used (for the evidence)
pub fn write_inputs(dir: &str, set: &SampleSet, pr: &Presentation, rng: &mut Rng, tag: &str) -> (Vec<String>, Vec<String>) {
    let mut paths = Vec::new();
    let mut notes = Vec::new();
    let mut emit = |stem: &str, text: Vec<u8>, rng: &mut Rng| {
        let (path, bytes) = match pr.gz {
            0 => (format!("{}/{}.fa", dir, stem), text),
            1 => (format!("{}/{}.fa.gz", dir, stem), gzip_members(&text, &[], false)),
            _ => {
                let n = rng.usize(1, 6);
                let mut cuts: Vec<usize> = (0..n).map(|_| rng.usize(0, text.len())).collect();
                // aim some cuts at structure: inside the first header, right after a '>' and
                // between CR and LF
                if let Some(p) = text.iter().position(|&b| b == b'\n') {
                    cuts.push(rng.usize(0, p));
                }
                // member boundaries directly before a header line (every second record start),
                // directly after its '>' and at the end of a header line
                for (i, &b) in text.iter().enumerate() {
                    if b == b'>' && i > 0 {
                        if rng.chance(1, 2) {
                            cuts.push(i);
                        }
                        if rng.chance(1, 6) {
                            cuts.push(i + 1);
                        }
                    }
                    if b == b'\n' && rng.chance(1, 40) {
                        cuts.push(i + 1);
                    }
                }
                if let Some(p) = text.windows(2).position(|w| w == b"\r\n") {
                    cuts.push(p + 1);
                }
                cuts.sort();
                notes.push(format!("{}: member cuts at {:?} of {} bytes", stem, cuts, text.len()));
                (format!("{}/{}.fa.gz", dir, stem), gzip_members(&text, &cuts, rng.chance(1, 2)))
            }
        };
        std::fs::write(&path, bytes).expect("write input");
        paths.push(path);
    };
    if pr.single_file {
        let mut all: Vec<(String, Vec<u8>)> = Vec::new();
        for s in &set.samples {
            all.extend(s.contigs.iter().cloned());
        }
        emit(&format!("{}all", tag), fasta_text(&all, pr, rng), rng);
    } else {
        for s in &set.samples {
            // file stem = sample name (used when headers are not PanSN); '#' is fine in a file name
            emit(&s.name.to_string(), fasta_text(&s.contigs, pr, rng), rng);
        }
    }
    (paths, notes)
}

pub struct RunOut {
    pub code: Option<i32>,
    pub stdout: Vec<u8>,
    pub stderr: Vec<u8>,
    pub timed_out: bool,
    pub wall_ms: u128,
    pub retried: bool,
}

impl RunOut {
    pub fn ok(&self) -> bool {
        self.code == Some(0)
    }
    pub fn panicked(&self) -> bool {
        let s = String::from_utf8_lossy(&self.stderr);
        s.contains("panicked at") || self.code == Some(101)
    }
    pub fn stderr_tail(&self) -> String {
        let s = String::from_utf8_lossy(&self.stderr);
        let lines: Vec<&str> = s.lines().filter(|l| !l.starts_with("DEBUG") && !l.starts_with("RAGC_END_SPLITTER")).collect();
        let n = lines.len();
        lines[n.saturating_sub(6)..].join(" | ")
    }
}

/// Run a command with a generous wall-clock watchdog (a firing watchdog is never a verdict).
/// On a heavily loaded machine a 4-second job has been seen to exceed three minutes, so a
/// command that hits the watchdog is run once more with four times the budget before the
/// timeout is reported.
pub fn run(cmd: &mut Command, timeout: Duration) -> RunOut {
    let first = run_once(cmd, timeout);
    if first.timed_out && timeout < Duration::from_secs(1000) {
        let mut second = run_once(cmd, timeout * 4);
        second.retried = true;
        return second;
    }
    first
}

fn run_once(cmd: &mut Command, timeout: Duration) -> RunOut {
    let start = Instant::now();
    cmd.stdin(Stdio::null()).stdout(Stdio::piped()).stderr(Stdio::piped());
    cmd.env("RUST_BACKTRACE", "0");
    // ragc writes temporary files (getset to stdout goes through one and leaves it behind on an
    // error path): keep them inside the run's scratch directory, which the driver removes
    if let Ok(d) = std::env::var("VERIF_TMPDIR") {
        cmd.env("TMPDIR", d);
    }
    // safety net: no child may take more than 24 GiB of address space (a runaway allocation loop
    // in the program under test then fails its allocation and dies instead of exhausting the
    // machine); far above anything these small inputs need
    unsafe {
        use std::os::unix::process::CommandExt;
        cmd.pre_exec(|| {
            let lim = libc::rlimit { rlim_cur: 24u64 << 30, rlim_max: 24u64 << 30 };
            libc::setrlimit(libc::RLIMIT_AS, &lim);
            Ok(())
        });
    }
    let mut child = match cmd.spawn() {
        Ok(c) => c,
        Err(e) => {
            return RunOut { code: None, stdout: vec![], stderr: format!("spawn failed: {e}").into_bytes(), timed_out: false, wall_ms: 0, retried: false }
        }
    };
    // drain the pipes on helper threads so a chatty child cannot block
    let mut so = child.stdout.take().unwrap();
    let mut se = child.stderr.take().unwrap();
    let t1 = std::thread::spawn(move || {
        let mut b = Vec::new();
        let _ = std::io::Read::read_to_end(&mut so, &mut b);
        b
    });
    let t2 = std::thread::spawn(move || {
        let mut b = Vec::new();
        let _ = std::io::Read::read_to_end(&mut se, &mut b);
        b
    });
    let mut timed_out = false;
    let code = loop {
        match child.try_wait() {
            Ok(Some(st)) => break st.code(),
            Ok(None) => {
                if start.elapsed() > timeout {
                    timed_out = true;
                    let _ = child.kill();
                    let _ = child.wait();
                    break None;
                }
                std::thread::sleep(Duration::from_millis(2));
            }
            Err(_) => break None,
        }
    };
    let stdout = t1.join().unwrap_or_default();
    let stderr = t2.join().unwrap_or_default();
    RunOut { code, stdout, stderr, timed_out, wall_ms: start.elapsed().as_millis(), retried: false }
}

pub fn create_cmd(ragc: &str, out: &str, inputs: &[String], p: &Params) -> Command {
    let mut c = Command::new(ragc);
    c.arg("create")
        .arg("-o")
        .arg(out)
        .arg("-k")
        .arg(p.k.to_string())
        .arg("-s")
        .arg(p.segment_size.to_string())
        .arg("-m")
        .arg(p.min_match.to_string())
        .arg("-l")
        .arg(p.pack.to_string())
        .arg("-t")
        .arg(p.threads.to_string())
        .arg("-v")
        .arg("0")
        .arg("--queue-capacity")
        .arg(p.capacity.to_string());
    if p.fallback > 0.0 {
        c.arg("--fallback-frac").arg(format!("{}", p.fallback));
    }
    for i in inputs {
        c.arg(i);
    }
    c
}

/// Parse FASTA text as written by ragc (">name" lines, sequence lines)
pub fn parse_fasta(text: &[u8]) -> Vec<(String, Vec<u8>)> {
    let mut out: Vec<(String, Vec<u8>)> = Vec::new();
    for line in text.split(|&b| b == b'\n') {
        let line = if line.last() == Some(&b'\r') { &line[..line.len() - 1] } else { line };
        if line.first() == Some(&b'>') {
            out.push((String::from_utf8_lossy(&line[1..]).to_string(), Vec::new()));
        } else if let Some(last) = out.last_mut() {
            last.1.extend_from_slice(line);
        }
    }
    out
}

pub const TIMEOUT: Duration = Duration::from_secs(180);
