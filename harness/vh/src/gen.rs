//! Generators: sample sets (synthetic pangenomes) and parameter sets.

use vcommon::{fnv, fnv_mix, Rng};

#[derive(Clone, Debug)]
pub struct Sample {
    pub name: String,
    /// (full header = contig name, bases as codes 0..15)
    pub contigs: Vec<(String, Vec<u8>)>,
}

#[derive(Clone, Debug)]
pub struct SampleSet {
    pub samples: Vec<Sample>,
    pub pansn: bool, // headers are sample#hap#contig (required for the single-file mode)
}

#[derive(Clone, Debug)]
pub struct Params {
    pub k: usize,
    pub segment_size: usize,
    pub min_match: usize,
    pub threads: usize,
    pub pack: usize,
    pub fallback: f64,
    pub capacity: usize,
    pub single_file: bool,
    pub level: i32,
}

impl Params {
    pub fn describe(&self) -> String {
        format!(
            "k={} s={} m={} t={} l={} fallback={} cap={} mode={} c={}",
            self.k,
            self.segment_size,
            self.min_match,
            self.threads,
            self.pack,
            self.fallback,
            self.capacity,
            if self.single_file { "single-file" } else { "multi-file" },
            self.level
        )
    }
    pub fn json(&self) -> String {
        vcommon::jobj(&[
            ("k", self.k.to_string()),
            ("segment_size", self.segment_size.to_string()),
            ("min_match", self.min_match.to_string()),
            ("threads", self.threads.to_string()),
            ("pack_cardinality", self.pack.to_string()),
            ("fallback_frac", format!("{}", self.fallback)),
            ("queue_capacity", self.capacity.to_string()),
            ("single_file", self.single_file.to_string()),
        ])
    }
}

impl SampleSet {
    pub fn digest(&self) -> u64 {
        let mut h = 0x1234_5678u64;
        for s in &self.samples {
            h = fnv_mix(h, fnv(s.name.as_bytes()));
            for (n, d) in &s.contigs {
                h = fnv_mix(h, fnv(n.as_bytes()));
                h = fnv_mix(h, fnv(d));
            }
        }
        h
    }
    pub fn total_bases(&self) -> usize {
        self.samples.iter().map(|s| s.contigs.iter().map(|c| c.1.len()).sum::<usize>()).sum()
    }
    pub fn brief(&self) -> String {
        let per: Vec<String> = self
            .samples
            .iter()
            .take(4)
            .map(|s| {
                let lens: Vec<usize> = s.contigs.iter().take(6).map(|c| c.1.len()).collect();
                vcommon::jobj(&[("sample", vcommon::jstr(&s.name)), ("contigs", s.contigs.len().to_string()), ("first_lengths", vcommon::jnums(&lens))])
            })
            .collect();
        vcommon::jobj(&[
            ("samples", self.samples.len().to_string()),
            ("total_bases", self.total_bases().to_string()),
            ("digest", format!("\"{:016x}\"", self.digest())),
            ("first_samples", vcommon::jarr(&per)),
        ])
    }
}

pub fn random_bases(rng: &mut Rng, len: usize) -> Vec<u8> {
    (0..len).map(|_| rng.below(4) as u8).collect()
}

pub fn revcomp(s: &[u8]) -> Vec<u8> {
    s.iter().rev().map(|&b| if b < 4 { 3 - b } else { b }).collect()
}

#[derive(Clone, Debug)]
pub struct Shape {
    pub max_samples: usize,
    pub max_contigs: usize,
    pub max_contig_len: usize,
    pub iupac: bool,
    pub allow_many_samples: bool,
}

/// Mutate a copy of `src` at the given divergence (per-mille), with N-runs and ambiguity codes
pub fn derive_contig(rng: &mut Rng, src: &[u8], div_pm: u64, iupac: bool) -> Vec<u8> {
    let mut out = Vec::with_capacity(src.len() + 16);
    let mut i = 0;
    while i < src.len() {
        let r = rng.below(1000);
        if r < div_pm {
            match rng.below(12) {
                0..=5 => out.push(rng.below(4) as u8), // SNP
                6 | 7 => {
                    // insertion
                    for _ in 0..rng.usize(1, 6) {
                        out.push(rng.below(4) as u8);
                    }
                    out.push(src[i]);
                }
                8 | 9 => {
                    // deletion
                    i += rng.usize(0, 5);
                }
                10 => {
                    // N run of length 1..12
                    for _ in 0..rng.usize(1, 12) {
                        out.push(4);
                    }
                }
                _ => {
                    if iupac {
                        out.push(rng.range(5, 15) as u8);
                    } else {
                        out.push(4);
                    }
                }
            }
        } else {
            out.push(src[i]);
        }
        i += 1;
    }
    if out.is_empty() {
        out.push(rng.below(4) as u8);
    }
    out
}

/// A synthetic pangenome. Contig lengths are chosen relative to k and the segment size so that
/// contigs shorter than k, single-segment contigs and contigs of dozens of segments all occur.
pub fn sample_set(rng: &mut Rng, p: &Params, shape: &Shape) -> SampleSet {
    let ns = if shape.allow_many_samples && rng.chance(1, 10) {
        rng.usize(51, shape.max_samples.max(52))
    } else {
        rng.usize(1, shape.max_samples.min(9))
    };
    let many = ns > 20;
    // with many samples: sometimes nothing but tiny contigs (orphans fill the 16 raw groups past
    // their first 49-entry pack), otherwise few contigs at high divergence (LZ groups collect
    // more than 50 distinct deltas)
    let orphan_mode = many && rng.chance(1, 3);
    // pack stress: one or two contigs of a few segments, >100 samples at ~1-3 % divergence, a
    // fifth of the samples exact copies of an earlier sample: every LZ group collects several
    // 50-entry packs and sees duplicate deltas in each of them
    let pack_stress = many && !orphan_mode && rng.chance(1, 2);
    let ns = if pack_stress {
        rng.usize(105, shape.max_samples.max(106))
    } else if orphan_mode {
        // at least ~900 orphan contigs: each of the 16 raw groups then fills its first pack
        // (placeholder + 49 entries) and starts a second one
        rng.usize(90, shape.max_samples.max(91))
    } else {
        ns
    };
    let nbase = if orphan_mode {
        rng.usize(10, 13)
    } else if pack_stress {
        rng.usize(1, 2)
    } else if many {
        rng.usize(1, 3)
    } else {
        rng.usize(1, shape.max_contigs)
    };
    let pansn = p.single_file || rng.chance(1, 3);
    let seg = p.segment_size;
    let k = p.k;
    let mut base: Vec<Vec<u8>> = Vec::new();
    // (start, unit length, copies) of a tandem repeat planted in a base contig: later samples
    // change the copy number, so the LZ matcher sees one k-mer at dozens of reference positions
    let mut tandem: Vec<Option<(usize, usize, usize)>> = Vec::new();
    for _ in 0..nbase {
        let len = match if orphan_mode { 0 } else { rng.below(10) } {
            0 => rng.usize(1, k), // shorter than (or equal to) k
            1 => rng.usize(k, k + 3),
            2 => rng.usize(1, 3),
            3 | 4 => rng.usize(seg / 2 + 1, 2 * seg + k),
            _ if pack_stress => rng.usize(2, 4) * (seg + k),
            _ => {
                let nseg = if many { rng.usize(1, 4) } else { rng.usize(2, 24) };
                (nseg * (seg + k)).min(shape.max_contig_len)
            }
        }
        .min(shape.max_contig_len)
        .max(1);
        let mut c = random_bases(rng, len);
        // an internal repeat now and then (duplicate k-mers => fewer splitter candidates)
        if len > 4 * k && rng.chance(1, 4) {
            let l = rng.usize(k, (len / 4).max(k));
            let a = rng.usize(0, len - l);
            let b = rng.usize(0, len - l);
            let blk = c[a..a + l].to_vec();
            c[b..b + l].copy_from_slice(&blk);
        }
        let mut t = None;
        if len > 200 && !many && rng.chance(1, 5) {
            let unit = rng.usize(3, 11);
            let copies = rng.usize(20, 200).min((shape.max_contig_len.saturating_sub(c.len())) / unit.max(1)).max(2);
            let u = random_bases(rng, unit);
            let start = rng.usize(0, c.len());
            let block: Vec<u8> = (0..unit * copies).map(|i| u[i % unit]).collect();
            c.splice(start..start, block);
            t = Some((start, unit, copies));
        }
        tandem.push(t);
        base.push(c);
    }
    let mut samples = Vec::new();
    for si in 0..ns {
        // names are unique but their order of appearance is not the lexicographic one
        let tag = if ns <= 9 { [9usize, 10, 2, 33, 1, 100, 5, 77, 8][si] } else { si };
        let sname = if pansn { format!("S{}#{}", tag, si % 2) } else { format!("smp{}", tag) };
        let mut contigs: Vec<(String, Vec<u8>)> = Vec::new();
        if pack_stress && si > 4 && rng.chance(1, 5) {
            // exact copy of an earlier (diverged) sample under new names
            let src: &Sample = &samples[rng.usize(1, si - 1)];
            let contigs: Vec<(String, Vec<u8>)> = src
                .contigs
                .iter()
                .enumerate()
                .map(|(j, c)| (contig_header(rng, pansn, &sname, j, j), c.1.clone()))
                .collect();
            samples.push(Sample { name: sname, contigs });
            continue;
        }
        let div = if si == 0 {
            0
        } else if pack_stress {
            *rng.pick(&[8u64, 15, 25])
        } else if many && rng.chance(2, 3) {
            *rng.pick(&[8u64, 15, 30])
        } else {
            *rng.pick(&[0u64, 1, 3, 10, 30, 100])
        };
        let mut order: Vec<usize> = (0..nbase).collect();
        if si > 0 && rng.chance(1, 4) {
            rng.shuffle(&mut order);
        }
        for &bi in &order {
            if si > 0 && nbase > 1 && rng.chance(1, 10) {
                continue; // contig absent from this sample
            }
            let mut d = if si == 0 {
                base[bi].clone()
            } else if orphan_mode && rng.chance(4, 5) {
                // unrelated tiny contigs: distinct entries (identical ones would be de-duplicated)
                let l = rng.usize(1, k.saturating_sub(1).max(1));
                random_bases(rng, l)
            } else if let (Some((start, unit, copies)), true) = (tandem[bi], rng.chance(2, 3)) {
                // change the copy number of the tandem repeat, then mutate as usual
                let delta = rng.range(0, 24) as i64 - 8;
                let newc = (copies as i64 + delta).max(1) as usize;
                let b = &base[bi];
                let mut v = b[..start].to_vec();
                for i in 0..unit * newc {
                    v.push(b[start + i % unit]);
                }
                v.extend_from_slice(&b[start + unit * copies..]);
                derive_contig(rng, &v, div.min(10), shape.iupac)
            } else {
                derive_contig(rng, &base[bi], div, shape.iupac)
            };
            if si == 0 && shape.iupac && rng.chance(1, 6) {
                // ambiguity codes in the reference sample as well
                let n = rng.usize(1, 3);
                for _ in 0..n {
                    let p = rng.usize(0, d.len() - 1);
                    d[p] = rng.range(4, 15) as u8;
                }
            }
            if si > 0 && rng.chance(1, 6) {
                d = revcomp(&d); // whole-contig reverse complement
            }
            let cname = contig_header(rng, pansn, &sname, bi, contigs.len());
            contigs.push((cname, d));
            if rng.chance(1, 15) && !many {
                // a duplicated contig under another name
                let dup = contigs.last().unwrap().1.clone();
                let cname = contig_header(rng, pansn, &sname, bi, contigs.len() + 100);
                contigs.push((cname, dup));
            }
        }
        if si > 0 && rng.chance(1, 8) {
            // an extra contig that exists only here
            let l = rng.usize(1, (3 * seg).min(shape.max_contig_len));
            let cname = contig_header(rng, pansn, &sname, 900 + si, contigs.len());
            contigs.push((cname, random_bases(rng, l)));
        }
        if contigs.is_empty() {
            let cname = contig_header(rng, pansn, &sname, 0, 0);
            contigs.push((cname, base[0].clone()));
        }
        samples.push(Sample { name: sname, contigs });
    }
    SampleSet { samples, pansn }
}

fn contig_header(rng: &mut Rng, pansn: bool, sample: &str, base_idx: usize, ordinal: usize) -> String {
    let core = match rng.below(4) {
        0 => format!("chr{}", base_idx + 1),
        1 => format!("ctg{:04}_{}", base_idx, ordinal),
        2 => format!("scaffold_{}|len", base_idx),
        _ => format!("c{}", base_idx),
    };
    // make the name unique within the sample
    let core = format!("{}.{}", core, ordinal);
    let desc = match rng.below(4) {
        0 => String::new(),
        1 => format!(" len={} origin=synthetic", ordinal * 7 + 1),
        2 => "  double  spaced description".to_string(),
        _ => format!(" {}", "x".repeat(rng.usize(1, 120))),
    };
    if pansn {
        format!("{}#{}{}", sample, core, desc)
    } else {
        format!("{}{}", core, desc)
    }
}

pub fn params(rng: &mut Rng, small: bool) -> Params {
    let k = if rng.chance(1, 6) { *rng.pick(&[9usize, 10, 31, 32]) } else { rng.usize(9, 32) };
    let segment_size = if small {
        *rng.pick(&[50usize, 60, 100, 150, 300])
    } else {
        *rng.pick(&[50usize, 80, 100, 200, 500, 1000, 5000, 60000])
    };
    let min_match = rng.usize(15, 32);
    let threads = *rng.pick(&[1usize, 1, 2, 2, 3, 4, 5, 8, 16]);
    let pack = *rng.pick(&[1usize, 2, 3, 7, 20, 50, 50, 60]);
    let fallback = *rng.pick(&[0.0f64, 0.0, 0.0, 0.05, 0.3]);
    let capacity = *rng.pick(&[1usize, 64, 1000, 20_000, 1 << 20, 2 << 30, 2 << 30]);
    Params { k, segment_size, min_match, threads, pack, fallback, capacity, single_file: rng.chance(1, 3), level: 17 }
}
