//! C04: archive bytes depend only on inputs and parameters, not on threads or timing.
//! Each shard owns whole equivalence classes {input, k, s, m, pack, fallback, mode}; inside a
//! class the thread count, the queue capacity and the perturbation seed vary and every run must
//! produce the same bytes. The hook log of every run gives its interleaving signature, so the
//! evidence can say how many different schedules were actually observed.

use crate::cli::{self, Presentation};
use crate::drive;
use crate::gen::{self, Params, SampleSet, Shape};
use crate::mon;
use std::collections::{BTreeMap, HashSet};
use std::panic::{catch_unwind, AssertUnwindSafe};
use vcommon::{fnv, jarr, jobj, jstr, Args, Report, Rng};

pub fn class_inputs(seed: u64, c: u64) -> (Params, SampleSet) {
    let mut rng = Rng::derive(seed, 0xC04, c);
    let mut p = gen::params(&mut rng, true);
    p.single_file = c % 2 == 0;
    if p.single_file {
        // small pack cardinality => several sync rounds inside the run
        p.pack = *rng.pick(&[2usize, 3, 5, 7, 11]);
    }
    let shape = Shape { max_samples: 9, max_contigs: 8, max_contig_len: 6000, iupac: true, allow_many_samples: false };
    if c % 16 == 5 {
        // one class per sixteen with megabases of new sequence in a single sync round: the
        // parallel compression phase then produces hundreds of KiB of parts (buffers that are
        // flushed by size, slabs handed out by whoever comes first, ... only show at this scale)
        p.k = 21;
        p.segment_size = *rng.pick(&[10_000usize, 20_000, 60_000]);
        p.fallback = 0.0;
        let l = rng.usize(2_600_000, 3_400_000);
        let base = gen::random_bases(&mut rng, l);
        let mut second = base.clone();
        for _ in 0..l / 500 {
            let at = rng.usize(0, l - 1);
            second[at] = rng.below(4) as u8;
        }
        let set = SampleSet {
            samples: vec![
                gen::Sample { name: "D000#0".into(), contigs: vec![("D000#0#c0".into(), base)] },
                gen::Sample { name: "D001#1".into(), contigs: vec![("D001#1#c0".into(), second), ("D001#1#c1".into(), gen::random_bases(&mut rng, 300_000))] },
            ],
            pansn: true,
        };
        return (p, set);
    }
    let mut set = gen::sample_set(&mut rng, &p, &shape);
    // make sure there is enough work for several workers and several rounds
    while set.samples.len() < 3 {
        let extra = gen::sample_set(&mut rng, &p, &shape);
        set.samples.extend(extra.samples);
    }
    // uniform PanSN headers with unique sample names (needed for the single-file mode, harmless
    // otherwise); the description part of every header is kept
    for (i, s) in set.samples.iter_mut().enumerate() {
        let sn = format!("D{:03}#{}", i, i % 2);
        for (j, c) in s.contigs.iter_mut().enumerate() {
            let desc = c.0.split_once(' ').map(|(_, d)| format!(" {}", d)).unwrap_or_default();
            c.0 = format!("{}#c{}{}", sn, j, desc);
        }
        s.name = sn;
    }
    set.pansn = true;
    (p, set)
}

pub fn run_variant(rng: &mut Rng, base: &Params) -> (Params, u64, u64) {
    let mut p = base.clone();
    p.threads = *rng.pick(&[1usize, 2, 2, 3, 3, 4, 5, 7, 8, 12, 16]);
    p.capacity = *rng.pick(&[1usize, 100, 1500, 20_000, 1 << 20, 2 << 30]);
    let pseed = rng.next();
    let per_mille = *rng.pick(&[0u64, 50, 200, 600]);
    (p, pseed, per_mille)
}

pub fn run(args: &Args, rep: &mut Report) {
    let thorough = args.tier_thorough;
    let classes = args.get_u64("classes", if thorough { 64 } else { 16 });
    let runs = args.get_u64("runs", if thorough { 36 } else { 6 });
    let scratch = args.get("scratch").unwrap_or("/tmp").to_string();
    let ragc = args.get("ragc").map(|s| s.to_string());
    let dir = format!("{}/det-{}-{}", scratch, std::process::id(), args.shard);
    std::fs::create_dir_all(&dir).unwrap();
    let only: Option<u64> = args.case.as_ref().and_then(|c| c.parse().ok());
    mon::install();
    for c in 0..classes {
        if !args.mine(c) {
            continue;
        }
        if let Some(o) = only {
            if o != c {
                continue;
            }
        }
        let (base, set) = class_inputs(args.seed, c);
        let mut rng = Rng::derive(args.seed, 0xC04A, c);
        let mut hashes: BTreeMap<String, Vec<String>> = BTreeMap::new(); // hash -> run descriptions
        let mut sigs: HashSet<u64> = HashSet::new();
        let mut max_rounds = 0u64;
        let mut failed = 0u64;
        for r in 0..runs {
            let (p, pseed, pm) = run_variant(&mut rng, &base);
            let path = format!("{}/c{}r{}.agc", dir, c, r);
            mon::set_case(c, jobj(&[("class", c.to_string()), ("run", r.to_string()), ("params", p.json())]));
            mon::perturb_on(pseed, pm, 800);
            let mut log = Vec::new();
            let res = catch_unwind(AssertUnwindSafe(|| {
                let (r, l) = drive::create_logged(&path, &set, &p, &drive::DriveOpts::default());
                log = l;
                r
            }));
            mon::perturb_off();
            rep.evaluations += 1;
            let desc = format!("library t={} cap={} perturb={}:{}", p.threads, p.capacity, pseed, pm);
            match res {
                Ok(Ok(())) => {
                    let h = drive::sha256_file(&path).unwrap_or_else(|e| format!("unreadable: {e}"));
                    hashes.entry(h).or_default().push(desc);
                    sigs.insert(mon::interleaving_signature(&log));
                    let rounds = log.iter().filter(|e| e.kind == ragc_common::verif::ev::P_TOKENS).count() as u64;
                    max_rounds = max_rounds.max(rounds);
                    rep.count("events_observed", log.len() as u64);
                    rep.count(
                        "runs_with_producer_blocked",
                        log.iter().any(|e| e.kind == ragc_common::verif::ev::Q_WAIT_FULL) as u64,
                    );
                }
                Ok(Err(e)) => {
                    failed += 1;
                    rep.inconclusive(format!("class {} run {}: create failed: {:#} [{}]", c, r, e, desc));
                }
                Err(pn) => {
                    failed += 1;
                    rep.inconclusive(format!("class {} run {}: create panicked: {} [{}]", c, r, drive::panic_message(&pn), desc));
                }
            }
            let _ = std::fs::remove_file(&path);
        }
        // CLI slice: the real binary, built with the hooks, perturbed through the env var.
        // It forms its own equivalence class (its runs must agree with each other).
        let mut cli_hashes: BTreeMap<String, Vec<String>> = BTreeMap::new();
        if let Some(ragc) = &ragc {
            let mut pr = Presentation::plain();
            pr.single_file = base.single_file;
            let idir = format!("{}/in{}", dir, c);
            std::fs::create_dir_all(&idir).unwrap();
            let (inputs, _) = cli::write_inputs(&idir, &set, &pr, &mut rng, "");
            for r in 0..(if thorough { 6 } else { 3 }) {
                let (p, pseed, pm) = run_variant(&mut rng, &base);
                let path = format!("{}/c{}cli{}.agc", dir, c, r);
                let mut cmd = cli::create_cmd(ragc, &path, &inputs, &p);
                cmd.env("RAGC_VERIF_PERTURB", format!("{}:{}", pseed % 100000, pm));
                let o = cli::run(&mut cmd, cli::TIMEOUT);
                rep.evaluations += 1;
                let desc = format!("ragc binary t={} cap={} perturb={}:{}", p.threads, p.capacity, pseed % 100000, pm);
                if o.timed_out {
                    rep.inconclusive(format!("class {}: {} hit the wall-clock watchdog", c, desc));
                } else if !o.ok() {
                    rep.inconclusive(format!("class {}: {} exited {:?}: {}", c, desc, o.code, o.stderr_tail()));
                } else {
                    let h = drive::sha256_file(&path).unwrap_or_else(|e| format!("unreadable: {e}"));
                    cli_hashes.entry(h).or_default().push(desc);
                    rep.count("cli_runs", 1);
                }
                let _ = std::fs::remove_file(&path);
            }
            let _ = std::fs::remove_dir_all(&idir);
        }
        for (label, hs) in [("library", &hashes), ("ragc binary", &cli_hashes)] {
            if hs.len() > 1 {
                let groups: Vec<String> = hs
                    .iter()
                    .map(|(h, runs)| jobj(&[("sha256", jstr(h)), ("runs", jarr(&runs.iter().map(|r| jstr(r)).collect::<Vec<_>>()))]))
                    .collect();
                rep.violation(
                    "C04:different-archives",
                    jobj(&[
                        ("what", jstr(&format!("{} distinct archives from identical inputs and parameters ({})", hs.len(), label))),
                        ("workload", jstr("vh c04")),
                        ("seed", args.seed.to_string()),
                        ("case", c.to_string()),
                        ("tier_thorough", thorough.to_string()),
                        ("params", base.json()),
                        ("input", set.brief()),
                        ("archives", jarr(&groups)),
                    ]),
                );
            }
        }
        rep.count("classes", 1);
        if set.total_bases() > 2_000_000 {
            rep.count("classes_with_megabases_in_one_sync_round", 1);
        }
        rep.count("distinct_interleaving_signatures", sigs.len() as u64);
        rep.max("max_sync_rounds_in_a_run", max_rounds);
        if sigs.len() >= 2 {
            rep.nontrivial(set.digest() ^ fnv(base.describe().as_bytes()));
        } else if failed < runs {
            rep.count("classes_with_a_single_interleaving", 1);
        }
        if rep.samples.len() < 3 {
            rep.sample(jobj(&[
                ("class", c.to_string()),
                ("params", base.json()),
                ("input", set.brief()),
                ("runs", (hashes.values().map(|v| v.len()).sum::<usize>()).to_string()),
                ("distinct_archive_hashes", hashes.len().to_string()),
                ("distinct_interleaving_signatures", sigs.len().to_string()),
                ("sync_rounds", max_rounds.to_string()),
            ]));
        }
    }
    let _ = std::fs::remove_dir_all(&dir);
}
