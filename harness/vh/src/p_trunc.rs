//! C14: any strict prefix of a valid archive is refused by open with an error value - never a
//! panic, a hang, a garbage-sized allocation or a usable handle. Fault enumeration over the
//! byte offsets of several archives, each shard of offsets in its own child process with a
//! counting allocator (a failed huge allocation aborts and cannot be caught in-process).

use crate::cli;
use crate::drive;
use crate::gen::{self, Params, SampleSet, Shape};
use ragc_common::Archive;
use ragc_core::{Decompressor, DecompressorConfig};
use std::collections::BTreeSet;
use std::panic::{catch_unwind, AssertUnwindSafe};
use std::time::Duration;
use vcommon::{jobj, jstr, Args, Report, Rng};

pub fn archive_inputs(seed: u64, which: u64) -> (Params, SampleSet) {
    let mut rng = Rng::derive(seed, 0xC14, which);
    let mut p = gen::params(&mut rng, true);
    p.threads = 2;
    p.capacity = 1 << 30;
    let shape = match which % 6 {
        0 => Shape { max_samples: 1, max_contigs: 1, max_contig_len: 40, iupac: false, allow_many_samples: false }, // tiny
        1 => Shape { max_samples: 6, max_contigs: 5, max_contig_len: 4000, iupac: true, allow_many_samples: false }, // splits
        2 => Shape { max_samples: 130, max_contigs: 2, max_contig_len: 200, iupac: false, allow_many_samples: true }, // 3 batches
        3 => Shape { max_samples: 3, max_contigs: 2, max_contig_len: 60_000, iupac: false, allow_many_samples: false }, // large parts
        _ => Shape { max_samples: 2, max_contigs: 2, max_contig_len: 300, iupac: false, allow_many_samples: false }, // replaced below (4, 5)
    };
    if which % 6 == 3 {
        p.segment_size = 5000;
    }
    let mut set = gen::sample_set(&mut rng, &p, &shape);
    if which % 6 == 2 {
        let base = set.samples.clone();
        let mut i = 0;
        while set.samples.len() < 105 {
            let mut s = base[i % base.len()].clone();
            let sn = format!("B{:03}#0", set.samples.len());
            for (j, c) in s.contigs.iter_mut().enumerate() {
                c.0 = format!("{}#c{}", sn, j);
                c.1.truncate(120);
            }
            s.name = sn;
            set.samples.push(s);
            i += 1;
        }
        for (i, s) in set.samples.iter_mut().enumerate() {
            if !s.name.contains('#') {
                let sn = format!("B{:03}#1", i);
                for (j, c) in s.contigs.iter_mut().enumerate() {
                    c.0 = format!("{}#c{}", sn, j);
                }
                s.name = sn;
            }
        }
        set.pansn = true;
    }
    if which % 6 == 0 {
        set.samples.truncate(1);
        set.samples[0].contigs.truncate(1);
    }
    if which % 6 == 4 {
        // a data area several hundred times larger than the footer (few groups, incompressible
        // sequence): cutting the last byte makes the footer length read as (F << 8) | x, which
        // still fits in the file, so the directory parser runs on garbage
        p.k = 31;
        p.segment_size = 60_000;
        set.samples.truncate(1);
        set.samples[0].contigs = vec![(format!("{}#big", set.samples[0].name), gen::random_bases(&mut rng, 1_000_000))];
        set.pansn = true;
    }
    if which % 6 == 5 {
        // Raw-stored parts that end in a hand-made "footer": every symbol code 0..15 is a legal
        // sequence byte, so a contig can spell <directory bytes> <their count> 00 00 00 00 00 00 00.
        // A prefix cut right after the seven zero bytes passes the footer-length check and the
        // directory parser runs on the hand-made bytes. The contigs are shorter than k (orphans,
        // one per raw group, so every pack is tiny and stays uncompressed).
        p.k = 32;
        p.segment_size = 100;
        let sn = "Z00#0".to_string();
        let mut contigs = Vec::new();
        for ci in 0..16 {
            let mut foot: Vec<u8> = Vec::new();
            // number of streams: length byte (sometimes 0, sometimes > 1) + value bytes
            let ns_len = *rng.pick(&[1u8, 1, 1, 0, 2, 9, 15]);
            foot.push(ns_len);
            for _ in 0..ns_len.min(3) {
                foot.push(rng.range(0, 4) as u8);
            }
            // then, cut off at a random point: name bytes, terminator, part count, raw size, parts
            let body: Vec<u8> = {
                let mut b = Vec::new();
                for _ in 0..rng.usize(0, 4) {
                    b.push(rng.range(1, 15) as u8); // name characters
                }
                if rng.chance(2, 3) {
                    b.push(0); // name terminator
                    b.push(1);
                    b.push(rng.range(0, 15) as u8); // number of parts
                    b.push(*rng.pick(&[0u8, 1, 8, 9, 15])); // raw size: length byte ...
                    for _ in 0..rng.usize(0, 3) {
                        b.push(rng.range(0, 15) as u8);
                    }
                }
                b
            };
            let keep = rng.usize(0, body.len());
            foot.extend_from_slice(&body[..keep]);
            foot.truncate(15);
            // half of the contigs spell a directory that is well formed up to its last byte: the
            // parser reaches the end of the footer exactly on a field boundary
            const TEMPLATES: [&[u8]; 8] = [
                &[1, 1, 1, 2, 0, 5, 15, 15, 15, 15, 15, 0],          // one stream, 0x0F0F0F0F0F parts, then nothing
                &[5, 15, 15, 15, 15, 15],                             // 0x0F0F0F0F0F streams, then nothing
                &[1, 2, 0, 0, 0, 0, 0, 0],                            // two streams, both named "", no parts
                &[0, 3, 1, 2],                                        // no streams, three bytes left over
                &[1, 1, 7, 0, 1, 2, 0, 1, 5, 1, 3],                   // two parts announced, one present
                &[1, 1, 3, 0, 1, 1, 0, 7, 15, 15, 15, 15, 15, 15, 15], // part offset 2^56-ish, size missing
                &[1, 1, 3, 0, 1, 1, 0, 1, 0, 1, 2],                   // complete and valid: one stream, one part
                &[1, 1, 3, 0, 1, 1, 0, 1, 0, 5, 15, 15, 15, 15, 15],  // complete, part size beyond the file
            ];
            if ci % 2 == 0 {
                foot = TEMPLATES[(ci / 2 + which as usize / 6) % 8].to_vec();
            }
            let mut d: Vec<u8> = (0..rng.usize(1, 31 - 8 - foot.len())).map(|_| rng.range(1, 15) as u8).collect();
            let flen = foot.len() as u8;
            d.extend_from_slice(&foot);
            d.push(flen);
            d.extend_from_slice(&[0u8; 7]);
            contigs.push((format!("{}#c{}", sn, ci), d));
        }
        set = SampleSet { samples: vec![gen::Sample { name: sn, contigs }], pansn: true };
    }
    (p, set)
}

/// "Garbage-sized" is judged against what the intact file needs: the largest single block that
/// opening the complete archive asks for (measured in the same child) times 4, or 64 x the file
/// length + 16 MiB, whichever is larger. A legitimately large fixed buffer therefore never counts.
fn alloc_limit(file_len: usize, intact_open_max: usize) -> usize {
    (64 * file_len + (16 << 20)).max(intact_open_max.saturating_mul(4))
}

/// Child: try the given prefix lengths of `archive` (descending), one report
pub fn child(args: &Args, rep: &mut Report) -> i32 {
    let src = args.get("archive").expect("archive=");
    let work = args.get("work").expect("work=");
    let progress = args.get("progress").expect("progress=");
    let offsets: Vec<usize> = std::fs::read_to_string(args.get("offsets").expect("offsets="))
        .expect("offsets file")
        .split_whitespace()
        .filter_map(|s| s.parse().ok())
        .collect();
    let full = std::fs::read(src).expect("read archive");
    let mut sorted = offsets.clone();
    sorted.sort_unstable_by(|a, b| b.cmp(a));
    std::fs::write(work, &full).expect("write work copy");
    let f = std::fs::OpenOptions::new().write(true).open(work).expect("open work copy");
    let mut classes: std::collections::BTreeMap<String, u64> = Default::default();
    // baseline: the complete file
    crate::ALLOC_MAX.store(0, std::sync::atomic::Ordering::SeqCst);
    let _ = catch_unwind(AssertUnwindSafe(|| {
        let _ = Decompressor::open(work, DecompressorConfig { verbosity: 0 }).map(|d| d.list_samples().len());
    }));
    let intact_open_max = crate::ALLOC_MAX.load(std::sync::atomic::Ordering::SeqCst);
    rep.max("max_single_allocation_bytes_opening_the_intact_file", intact_open_max as u64);
    // hard stops for runaway allocation (a loop that grows a vector for ever): generous against
    // anything an open of these files can legitimately need
    crate::ALLOC_CAP_SINGLE.store(alloc_limit(full.len(), intact_open_max).saturating_mul(8).max(1 << 30), std::sync::atomic::Ordering::SeqCst);
    let live_now = crate::ALLOC_LIVE.load(std::sync::atomic::Ordering::SeqCst);
    crate::ALLOC_CAP_LIVE.store(live_now + (3usize << 30) + alloc_limit(full.len(), intact_open_max).saturating_mul(8), std::sync::atomic::Ordering::SeqCst);
    for n in sorted {
        if n >= full.len() {
            continue;
        }
        f.set_len(n as u64).expect("truncate");
        let _ = std::fs::write(progress, n.to_string());
        rep.evaluations += 1;
        crate::ALLOC_MAX.store(0, std::sync::atomic::Ordering::SeqCst);
        let r = catch_unwind(AssertUnwindSafe(|| {
            let a = {
                let mut a = Archive::new_reader();
                a.open(work).map(|_| a.get_num_streams())
            };
            let d = Decompressor::open(work, DecompressorConfig { verbosity: 0 }).map(|d| d.list_samples().len());
            (a.map_err(|e| format!("{:#}", e)), d.map_err(|e| format!("{:#}", e)))
        }));
        let max_alloc = crate::ALLOC_MAX.load(std::sync::atomic::Ordering::SeqCst);
        rep.max("max_single_allocation_bytes", max_alloc as u64);
        let mut bad: Option<String> = None;
        match r {
            Err(pn) => bad = Some(format!("panic: open panicked on the {}-byte prefix: {}", n, drive::panic_message(&pn))),
            Ok((a, d)) => {
                match &d {
                    Ok(ns) => bad = Some(format!("accepted: Decompressor::open accepted the {}-byte prefix of a {}-byte archive ({} samples listed)", n, full.len(), ns)),
                    Err(e) => {
                        let class: String = e.split(':').next().unwrap_or("").chars().filter(|c| !c.is_ascii_digit()).take(60).collect();
                        *classes.entry(class).or_insert(0) += 1;
                    }
                }
                if a.is_ok() {
                    rep.count("prefixes_where_the_container_alone_opened", 1);
                }
            }
        }
        if bad.is_none() && max_alloc > alloc_limit(full.len(), intact_open_max) {
            bad = Some(format!("allocation: opening the {}-byte prefix requested a single block of {} bytes", n, max_alloc));
        }
        if let Some(w) = bad {
            rep.violation(
                &format!("C14:{}", w.split(':').next().unwrap_or("")),
                jobj(&[
                    ("what", jstr(&vcommon::clip(&w, 600))),
                    ("workload", jstr("vh c14")),
                    ("seed", args.seed.to_string()),
                    ("archive_index", args.get("which").unwrap_or("?").to_string()),
                    ("prefix_length", n.to_string()),
                    ("archive_length", full.len().to_string()),
                    ("profile", jstr(if cfg!(debug_assertions) { "dev (overflow checks on)" } else { "release" })),
                ]),
            );
        }
    }
    for (k, v) in classes {
        rep.count(&format!("error_class[{}]", k), v);
    }
    let _ = std::fs::remove_file(work);
    let _ = std::fs::remove_file(progress);
    0
}

/// Build the archives once (called by the driver before the shards start)
pub fn prep(args: &Args, rep: &mut Report) {
    let dir = args.get("archives_dir").expect("archives_dir=").to_string();
    std::fs::create_dir_all(&dir).unwrap();
    let narch = args.get_u64("archives", if args.tier_thorough { 24 } else { 12 });
    for which in 0..narch {
        if !args.mine(which) {
            continue;
        }
        let (p, set) = archive_inputs(args.seed, which);
        let path = format!("{}/full{}.agc", dir, which);
        rep.evaluations += 1;
        match catch_unwind(AssertUnwindSafe(|| drive::create(&path, &set, &p))) {
            Ok(Ok(())) => rep.count("archives_prepared", 1),
            _ => rep.inconclusive(format!("archive {}: create did not succeed", which)),
        }
    }
}

pub fn run(args: &Args, rep: &mut Report) {
    let thorough = args.tier_thorough;
    let scratch = args.get("scratch").unwrap_or("/tmp").to_string();
    let ragc = args.get("ragc").map(|s| s.to_string());
    let dir = format!("{}/tr-{}-{}", scratch, std::process::id(), args.shard);
    std::fs::create_dir_all(&dir).unwrap();
    let exe = std::env::current_exe().expect("current_exe");
    let narch = args.get_u64("archives", if thorough { 24 } else { 12 });
    let mut all_exhaustive = true;
    // the archives are built once by `vh c14prep` (optimised build) and shared by all shards of
    // both build profiles; without archives_dir= every shard builds its own
    let prebuilt = args.get("archives_dir").map(|s| s.to_string());
    for which in 0..narch {
        let (p, set) = archive_inputs(args.seed, which);
        let path = match &prebuilt {
            Some(d) => format!("{}/full{}.agc", d, which),
            None => format!("{}/full{}.agc", dir, which),
        };
        if prebuilt.is_none() {
            match catch_unwind(AssertUnwindSafe(|| drive::create(&path, &set, &p))) {
                Ok(Ok(())) => {}
                _ => {
                    rep.inconclusive(format!("archive {}: create did not succeed", which));
                    continue;
                }
            }
        } else if !std::path::Path::new(&path).exists() {
            rep.inconclusive(format!("archive {}: the prepared archive {} is missing", which, path));
            continue;
        }
        let full = std::fs::read(&path).unwrap();
        let len = full.len();
        // which prefix lengths?
        let mut offs: BTreeSet<usize> = BTreeSet::new();
        let exhaustive = thorough && len <= 70_000 || len <= 16_000;
        if exhaustive {
            offs.extend(0..len);
        } else {
            all_exhaustive = false;
            let mut rng = Rng::derive(args.seed, 0xC14A, which);
            let n = if thorough { 12_000 } else { 1_500 };
            for i in 0..n {
                offs.insert((i as u128 * len as u128 / n as u128) as usize);
                offs.insert(rng.usize(0, len - 1));
            }
            offs.extend(len.saturating_sub(if thorough { 8192 } else { 3000 })..len);
            offs.extend(0..64.min(len));
            if let Ok((spans, fstart)) = agcdec::part_spans(&full) {
                for (a, b) in spans {
                    for d in [a.saturating_sub(1), a, a + 1, b.saturating_sub(1), b, b + 1] {
                        if d < len {
                            offs.insert(d);
                        }
                    }
                }
                for d in fstart.saturating_sub(2)..(fstart + 3).min(len) {
                    offs.insert(d);
                }
            }
        }
        let mine: Vec<usize> = offs.iter().copied().filter(|o| args.mine(*o as u64)).collect();
        rep.count("prefix_lengths_selected", mine.len() as u64);
        rep.count(if exhaustive { "archives_with_every_prefix_tried" } else { "archives_sampled" }, (args.shard == 0) as u64);
        rep.max("largest_archive_bytes", len as u64);
        // run them in a child (chunks of at most 40k offsets)
        for (ci, chunk) in mine.chunks(40_000).enumerate() {
            let mut pending: Vec<usize> = chunk.to_vec();
            let mut suspicious: Option<usize> = None;
            loop {
                if pending.is_empty() {
                    break;
                }
                let of = format!("{}/offs{}_{}.txt", dir, which, ci);
                std::fs::write(&of, pending.iter().map(|o| o.to_string()).collect::<Vec<_>>().join("\n")).unwrap();
                let out = format!("{}/out{}_{}.json", dir, which, ci);
                let prog = format!("{}/prog{}_{}.txt", dir, which, ci);
                let _ = std::fs::remove_file(&out);
                let mut cmd = std::process::Command::new(&exe);
                cmd.arg("c14child")
                    .arg("--seed")
                    .arg(args.seed.to_string())
                    .arg("--out")
                    .arg(&out)
                    .arg(format!("archive={}", path))
                    .arg(format!("work={}/work{}_{}.agc", dir, which, ci))
                    .arg(format!("progress={}", prog))
                    .arg(format!("offsets={}", of))
                    .arg(format!("which={}", which));
                let o = cli::run(&mut cmd, Duration::from_secs(if pending.len() == 1 { 120 } else { 600 }));
                let report = std::fs::read_to_string(&out).ok();
                if o.code == Some(0) && report.is_some() {
                    rep.records.push(report.unwrap());
                    break;
                }
                // the child died or was stopped: attribute it to the offset it was working on
                let at: Option<usize> = std::fs::read_to_string(&prog).ok().and_then(|s| s.trim().parse().ok());
                let Some(at) = at else {
                    rep.inconclusive(format!("archive {}: child ended {:?} before trying any prefix: {}", which, o.code, o.stderr_tail()));
                    break;
                };
                if o.timed_out {
                    if pending.len() == 1 && suspicious == Some(at) {
                        rep.evaluations += 1;
                        rep.violation(
                            "C14:hang",
                            jobj(&[("what", jstr(&format!("hang: opening the {}-byte prefix did not return within 120 s, twice (single-threaded, deterministic code)", at))), ("workload", jstr("vh c14")), ("seed", args.seed.to_string()), ("archive_index", which.to_string()), ("prefix_length", at.to_string())]),
                        );
                        break;
                    }
                    // re-run that offset alone, then carry on with the rest
                    let rest: Vec<usize> = pending.iter().copied().filter(|x| *x < at).collect();
                    suspicious = Some(at);
                    let alone = vec![at];
                    std::fs::write(&of, at.to_string()).unwrap();
                    let o2 = cli::run(&mut cmd, Duration::from_secs(120));
                    let _ = alone;
                    if o2.timed_out {
                        rep.evaluations += 1;
                        rep.violation(
                            "C14:hang",
                            jobj(&[("what", jstr(&format!("hang: opening the {}-byte prefix did not return within 120 s, twice (single-threaded, deterministic code)", at))), ("workload", jstr("vh c14")), ("seed", args.seed.to_string()), ("archive_index", which.to_string()), ("prefix_length", at.to_string())]),
                        );
                    } else if let Ok(j) = std::fs::read_to_string(&out) {
                        rep.records.push(j);
                    }
                    pending = rest;
                    continue;
                }
                // abort / signal: a failed allocation or a crash while working on `at`
                rep.evaluations += 1;
                rep.violation(
                    "C14:abort",
                    jobj(&[
                        ("what", jstr(&format!("abort: the process died (exit {:?}) while opening the {}-byte prefix: {}", o.code, at, o.stderr_tail()))),
                        ("workload", jstr("vh c14")),
                        ("seed", args.seed.to_string()),
                        ("archive_index", which.to_string()),
                        ("prefix_length", at.to_string()),
                        ("profile", jstr(if cfg!(debug_assertions) { "dev (overflow checks on)" } else { "release" })),
                    ]),
                );
                pending.retain(|x| *x < at);
            }
        }
        // CLI slice: listset / getset on some prefixes must exit non-zero without a panic
        if let (Some(ragc), true) = (&ragc, args.shard == (which % args.nshards)) {
            let mut rng = Rng::derive(args.seed, 0xC14B, which);
            let n = if thorough { 60 } else { 12 };
            let first = set.samples[0].name.clone();
            for i in 0..n {
                let cut = match i % 4 {
                    0 => len - 1 - rng.usize(0, 40.min(len - 1)),
                    1 => rng.usize(0, 16.min(len - 1)),
                    _ => rng.usize(0, len - 1),
                };
                let pf = format!("{}/cli{}_{}.agc", dir, which, i);
                std::fs::write(&pf, &full[..cut]).unwrap();
                for argv in [vec!["listset".to_string(), pf.clone()], vec!["getset".to_string(), pf.clone(), first.clone()]] {
                    let o = cli::run(std::process::Command::new(ragc).args(&argv), cli::TIMEOUT);
                    rep.evaluations += 1;
                    rep.count("cli_invocations_on_prefixes", 1);
                    let bad = if o.timed_out {
                        rep.inconclusive(format!("`ragc {}` on a {}-byte prefix hit the wall-clock watchdog", argv[0], cut));
                        None
                    } else if o.panicked() || o.code.is_none() {
                        Some(format!("panic: `ragc {}` crashed (exit {:?}) on the {}-byte prefix: {}", argv[0], o.code, cut, o.stderr_tail()))
                    } else if o.ok() {
                        Some(format!("accepted: `ragc {}` exited 0 on the {}-byte prefix of a {}-byte archive", argv[0], cut, len))
                    } else {
                        None
                    };
                    if let Some(w) = bad {
                        rep.violation(
                            &format!("C14:cli-{}", w.split(':').next().unwrap_or("")),
                            jobj(&[("what", jstr(&vcommon::clip(&w, 600))), ("workload", jstr("vh c14")), ("seed", args.seed.to_string()), ("archive_index", which.to_string()), ("prefix_length", cut.to_string())]),
                        );
                    }
                }
                let _ = std::fs::remove_file(&pf);
            }
        }
        if args.shard == 0 && rep.samples.len() < 4 {
            rep.sample(jobj(&[
                ("archive_index", which.to_string()),
                ("archive_bytes", len.to_string()),
                ("every_prefix_tried", exhaustive.to_string()),
                ("input", set.brief()),
                ("params", p.json()),
            ]));
        }
        rep.distinct_by_construction += mine.len() as u64;
        if prebuilt.is_none() {
            let _ = std::fs::remove_file(&path);
        }
    }
    rep.exhaustive = Some(all_exhaustive);
    let _ = std::fs::remove_dir_all(&dir);
}
