//! C11: splitter selection is deterministic, strand-symmetric, singleton-only and spaced.

use crate::cli::{self, Presentation};
use crate::gen;
use ahash::AHashSet;
use ragc_core::segment::split_at_splitters_with_size;
use ragc_core::{determine_splitters, determine_splitters_streaming, determine_splitters_streaming_first_sample};
use std::collections::{BTreeSet, HashMap};
use std::panic::{catch_unwind, AssertUnwindSafe};
use vcommon::{codes_to_string, fnv, jobj, jstr, Args, Report, Rng};

// ---- from-scratch canonical k-mer counting (no code shared with ragc) ----
fn pack(win: &[u8]) -> u64 {
    let mut v: u128 = 0;
    for &b in win {
        v = v * 4 + b as u128;
    }
    ((v << (64 - 2 * win.len() as u32)) & 0xFFFF_FFFF_FFFF_FFFF) as u64
}
fn canon(win: &[u8]) -> u64 {
    let rc: Vec<u8> = win.iter().rev().map(|&b| 3 - b).collect();
    pack(win).min(pack(&rc))
}
fn count_kmers(contigs: &[Vec<u8>], k: usize) -> HashMap<u64, u32> {
    let mut m = HashMap::new();
    for c in contigs {
        if c.len() < k {
            continue;
        }
        for i in 0..=c.len() - k {
            let w = &c[i..i + k];
            if w.iter().all(|&b| b < 4) {
                *m.entry(canon(w)).or_insert(0) += 1;
            }
        }
    }
    m
}

fn sorted(s: &AHashSet<u64>) -> BTreeSet<u64> {
    s.iter().copied().collect()
}

fn gen_reference(rng: &mut Rng) -> (Vec<Vec<u8>>, usize, usize) {
    let k = if rng.chance(1, 5) { *rng.pick(&[3usize, 4, 31, 32]) } else { rng.usize(3, 32) };
    let seg = *rng.pick(&[10usize, 20, 50, 100, 300, 1000, 5000]);
    let nc = rng.usize(1, 12);
    let mut contigs: Vec<Vec<u8>> = Vec::new();
    for _ in 0..nc {
        let len = match rng.below(8) {
            0 => rng.usize(0, k), // shorter than k (may be empty: dropped below)
            1 => rng.usize(k, k + 5),
            _ => rng.usize(k, (6 * seg).min(8000).max(k + 1)),
        };
        let mut c = gen::random_bases(rng, len);
        if rng.chance(1, 3) && len > 0 {
            for _ in 0..rng.usize(1, 3) {
                let p = rng.usize(0, len - 1);
                let l = rng.usize(1, 8).min(len - p);
                for x in &mut c[p..p + l] {
                    *x = 4;
                }
            }
        }
        if rng.chance(1, 4) && len > 2 * k {
            // internal repeat
            let l = rng.usize(k, len / 2);
            let a = rng.usize(0, len - l);
            let b = rng.usize(0, len - l);
            let blk = c[a..a + l].to_vec();
            c[b..b + l].copy_from_slice(&blk);
        }
        if rng.chance(1, 6) && len >= k && k % 2 == 0 && k <= len {
            // plant a reverse-complement palindrome
            let p = rng.usize(0, len - k);
            for j in 0..k / 2 {
                c[p + j] = c[p + j].min(3);
                c[p + k - 1 - j] = 3 - c[p + j];
            }
        }
        if !c.is_empty() {
            contigs.push(c);
        }
    }
    if contigs.is_empty() {
        contigs.push(gen::random_bases(rng, k + 10));
    }
    if rng.chance(1, 40) {
        // a long contig (more than 64 Ki bases): implementations that cut long contigs into
        // per-thread slices must not lose or duplicate the k-mers at the cuts
        let l = rng.usize(66_000, 180_000);
        contigs.push(gen::random_bases(rng, l));
    }
    if rng.chance(1, 3) {
        // ambiguity codes and unknown letters break a k-mer window exactly like N does
        for c in contigs.iter_mut() {
            if c.is_empty() || rng.chance(1, 2) {
                continue;
            }
            for _ in 0..rng.usize(1, 4) {
                let p = rng.usize(0, c.len() - 1);
                c[p] = if rng.chance(1, 8) { 30 } else { rng.usize(5, 15) as u8 };
            }
        }
    }
    if rng.chance(1, 5) {
        let d = contigs[0].clone(); // a duplicated contig
        contigs.push(d);
    }
    if rng.chance(1, 6) {
        let d = gen::revcomp(&contigs[0]); // and its reverse complement
        contigs.push(d);
    }
    (contigs, k, seg)
}

/// More than 2^20 k-mers, with blocks repeated far apart: twice within the first contig and once
/// more in the last one, twice in the second and once in the third, ... Implementations that work
/// through the reference in chunks (streaming, compaction, per-thread slices) must still count
/// occurrences over the whole reference.
fn gen_big_reference(rng: &mut Rng) -> (Vec<Vec<u8>>, usize, usize) {
    let k = *rng.pick(&[15usize, 21, 31]);
    let seg = *rng.pick(&[1000usize, 5000, 20000]);
    let lens = [rng.usize(520_000, 640_000), rng.usize(520_000, 640_000), rng.usize(60_000, 140_000), rng.usize(30_000, 60_000)];
    let mut contigs: Vec<Vec<u8>> = lens.iter().map(|&l| gen::random_bases(rng, l)).collect();
    for (src, dst) in [(0usize, 3usize), (1, 2), (0, 2), (1, 3)] {
        let l = rng.usize(k + 5, 160);
        let a = rng.usize(0, contigs[src].len() / 2 - l);
        let blk = contigs[src][a..a + l].to_vec();
        // second copy in the same contig, third copy (or, for half of them, the only other copy) far away
        if rng.chance(1, 2) {
            let b = rng.usize(contigs[src].len() / 2, contigs[src].len() - l);
            contigs[src][b..b + l].copy_from_slice(&blk);
        }
        let c = rng.usize(0, contigs[dst].len() - l);
        contigs[dst][c..c + l].copy_from_slice(&blk);
    }
    if rng.chance(1, 2) {
        let p = rng.usize(0, contigs[1].len() - 20);
        for x in &mut contigs[1][p..p + 12] {
            *x = 4;
        }
    }
    (contigs, k, seg)
}

fn check(contigs: &[Vec<u8>], k: usize, seg: usize, rng: &mut Rng, dir: &str, rep: &mut Report) -> Result<(), String> {
    let counts = count_kmers(contigs, k);
    let want_single: BTreeSet<u64> = counts.iter().filter(|(_, &c)| c == 1).map(|(&x, _)| x).collect();
    let want_dup: BTreeSet<u64> = counts.iter().filter(|(_, &c)| c > 1).map(|(&x, _)| x).collect();
    let (spl, single, dup) = determine_splitters(contigs, k, seg);
    let (spl_s, single_s, dup_s) = (sorted(&spl), sorted(&single), sorted(&dup));
    if single_s != want_single {
        return Err(format!("singletons: singleton set has {} k-mers, a naive count finds {}", single_s.len(), want_single.len()));
    }
    if dup_s != want_dup {
        return Err(format!("duplicates: duplicate set has {} k-mers, a naive count finds {}", dup_s.len(), want_dup.len()));
    }
    if single_s.intersection(&dup_s).next().is_some() {
        return Err("disjoint: singleton and duplicate sets intersect".into());
    }
    if !spl_s.is_subset(&single_s) {
        return Err("subset: a splitter is not a singleton k-mer of the reference".into());
    }
    if !want_dup.is_empty() {
        rep.count("references_with_duplicate_kmers", 1);
    }
    // contig order and strand must not matter for singletons / duplicates
    let mut perm: Vec<Vec<u8>> = contigs.to_vec();
    rng.shuffle(&mut perm);
    for c in perm.iter_mut() {
        if rng.chance(1, 2) {
            *c = gen::revcomp(c);
        }
    }
    let (spl2, single2, dup2) = determine_splitters(&perm, k, seg);
    if sorted(&single2) != single_s || sorted(&dup2) != dup_s {
        return Err("symmetry: singleton/duplicate sets change under contig permutation or reverse complement".into());
    }
    if !sorted(&spl2).is_subset(&single_s) {
        return Err("subset: a splitter of the permuted reference is not a singleton".into());
    }
    // spacing: segment the reference with its own splitters
    let mut interior = 0u64;
    for c in contigs {
        let segs = split_at_splitters_with_size(c, &spl, k, seg);
        let n = segs.len();
        if n > 3 {
            for s in &segs[1..n - 2] {
                interior += 1;
                if s.data.len() < seg {
                    return Err(format!("spacing: an interior segment has {} bases, segment size is {}", s.data.len(), seg));
                }
            }
        }
        if let Some(last) = c.len().checked_sub(k) {
            if last < c.len() && c[last..].iter().all(|&b| b < 4) && spl.contains(&canon(&c[last..])) {
                rep.count("references_with_end_of_contig_splitter", 1);
            }
        }
    }
    if interior >= 3 {
        rep.count("references_with_3_or_more_interior_segments", 1);
    }
    rep.count("interior_segments_checked", interior);
    // determinism across rayon pools
    for nt in [1usize, 2, 7, 16] {
        let pool = rayon::ThreadPoolBuilder::new().num_threads(nt).thread_name(|i| format!("vh-rayon-{}", i)).build().map_err(|e| format!("harness: rayon pool: {e}"))?;
        let (s3, a3, d3) = pool.install(|| determine_splitters(contigs, k, seg));
        if sorted(&s3) != spl_s || sorted(&a3) != single_s || sorted(&d3) != dup_s {
            return Err(format!("threads: result differs with a rayon pool of {} threads", nt));
        }
    }
    // streaming variants read the same reference from a FASTA file
    let named: Vec<(String, Vec<u8>)> = contigs.iter().enumerate().map(|(i, c)| (format!("ref#0#c{}", i), c.clone())).collect();
    let mut pr = Presentation::plain();
    pr.width = *rng.pick(&[1usize, 60, 100_000]);
    pr.case = rng.below(3) as u8;
    let text = cli::fasta_text(&named, &pr, rng);
    let path = format!("{}/ref.fa", dir);
    std::fs::write(&path, text).map_err(|e| format!("harness: {e}"))?;
    let (s4, a4, d4) = determine_splitters_streaming(std::path::Path::new(&path), k, seg).map_err(|e| format!("error: streaming variant failed: {:#}", e))?;
    if sorted(&s4) != spl_s || sorted(&a4) != single_s || sorted(&d4) != dup_s {
        return Err(format!(
            "variants: streaming variant differs from the in-memory one (splitters {} vs {}, singletons {} vs {})",
            s4.len(),
            spl_s.len(),
            a4.len(),
            single_s.len()
        ));
    }
    let (s5, a5, d5) = determine_splitters_streaming_first_sample(std::path::Path::new(&path), k, seg).map_err(|e| format!("error: first-sample variant failed: {:#}", e))?;
    if sorted(&s5) != spl_s || sorted(&a5) != single_s || sorted(&d5) != dup_s {
        return Err("variants: first-sample variant differs from the in-memory one".into());
    }
    Ok(())
}

pub fn run(args: &Args, rep: &mut Report) {
    let n = args.get_u64("n", if args.tier_thorough { 120_000 } else { 1_200 });
    let scratch = args.get("scratch").unwrap_or("/tmp").to_string();
    let dir = format!("{}/sp-{}-{}", scratch, std::process::id(), args.shard);
    std::fs::create_dir_all(&dir).unwrap();
    let only: Option<u64> = args.case.as_ref().and_then(|c| c.parse().ok());
    for i in 0..n {
        if !args.mine(i) {
            continue;
        }
        if let Some(c) = only {
            if c != i {
                continue;
            }
        }
        let mut rng = Rng::derive(args.seed, 0xC11, i);
        let big = i % 400 == 77;
        let (contigs, k, seg) = if big { gen_big_reference(&mut rng) } else { gen_reference(&mut rng) };
        rep.evaluations += 1;
        let r = catch_unwind(AssertUnwindSafe(|| {
            let mut tmp = Report::new();
            let r = check(&contigs, k, seg, &mut rng, &dir, &mut tmp);
            (r, tmp)
        }));
        let verdict = match r {
            Ok((Ok(()), tmp)) => {
                rep.merge(tmp);
                Ok(())
            }
            Ok((Err(w), _)) => Err(w),
            Err(pn) => Err(format!("panic: {}", crate::drive::panic_message(&pn))),
        };
        match verdict {
            Ok(()) => {
                let mut h = (k as u64) << 48 ^ seg as u64;
                for c in &contigs {
                    h = h.rotate_left(9) ^ fnv(c);
                }
                if contigs.iter().any(|c| c.len() > k + seg) {
                    rep.nontrivial(h);
                }
                if contigs.iter().map(|c| c.len()).sum::<usize>() > (1 << 20) + 100_000 {
                    rep.count("references_with_more_than_a_million_kmers", 1);
                }
                if contigs.iter().any(|c| c.iter().any(|&b| b > 4)) {
                    rep.count("references_with_ambiguity_codes", 1);
                }
                if contigs.iter().any(|c| c.len() > 65_536) {
                    rep.count("references_with_a_contig_longer_than_64k", 1);
                }
                if rep.samples.len() < 2 && contigs.len() <= 3 && contigs.iter().all(|c| c.len() < 200) {
                    rep.sample(jobj(&[
                        ("k", k.to_string()),
                        ("segment_size", seg.to_string()),
                        ("contigs", vcommon::jarr(&contigs.iter().map(|c| jstr(&codes_to_string(c))).collect::<Vec<_>>())),
                    ]));
                }
            }
            Err(w) if w.starts_with("harness:") => rep.inconclusive(format!("case {}: {}", i, w)),
            Err(w) => rep.violation(
                &format!("C11:{}", w.split(':').next().unwrap_or("")),
                jobj(&[
                    ("what", jstr(&vcommon::clip(&w, 800))),
                    ("workload", jstr("vh c11")),
                    ("seed", args.seed.to_string()),
                    ("case", i.to_string()),
                    ("k", k.to_string()),
                    ("segment_size", seg.to_string()),
                    ("contig_lengths", vcommon::jnums(&contigs.iter().map(|c| c.len()).collect::<Vec<_>>())),
                    ("first_contig", jstr(&vcommon::clip(&codes_to_string(&contigs[0]), 800))),
                ]),
            ),
        }
    }
    let _ = std::fs::remove_dir_all(&dir);
}
