//! C19: extraction is invariant under how the input is presented; presentations that differ
//! only in compression, wrapping, line ends or case give byte-identical archives.

use crate::cli::{self, Presentation};
use crate::drive;
use crate::gen::{self, Params, Shape};
use std::process::Command;
use vcommon::{fnv, jobj, jstr, Args, Report, Rng};

struct Outcome {
    sha: String,
    listing: Vec<String>,
    extraction: Vec<Vec<u8>>, // per listed sample: getset stdout
}

fn build(ragc: &str, dir: &str, inputs: &[String], p: &Params, tag: &str) -> Result<Outcome, String> {
    let arch = format!("{}/{}.agc", dir, tag);
    let o = cli::run(&mut cli::create_cmd(ragc, &arch, inputs, p), cli::TIMEOUT);
    if o.timed_out {
        return Err("watchdog".into());
    }
    if !o.ok() {
        return Err(format!("create failed (exit {:?}): {}", o.code, o.stderr_tail()));
    }
    let sha = drive::sha256_file(&arch).map_err(|e| format!("{e}"))?;
    let ls = cli::run(Command::new(ragc).arg("listset").arg(&arch), cli::TIMEOUT);
    if !ls.ok() {
        return Err(format!("listset failed (exit {:?})", ls.code));
    }
    let listing: Vec<String> = String::from_utf8_lossy(&ls.stdout).lines().map(|s| s.to_string()).collect();
    let mut extraction = Vec::new();
    for s in &listing {
        let g = cli::run(Command::new(ragc).arg("getset").arg(&arch).arg(s), cli::TIMEOUT);
        if !g.ok() {
            return Err(format!("getset {:?} failed (exit {:?}): {}", s, g.code, g.stderr_tail()));
        }
        extraction.push(g.stdout);
    }
    let _ = std::fs::remove_file(&arch);
    Ok(Outcome { sha, listing, extraction })
}

pub fn run(args: &Args, rep: &mut Report) {
    let thorough = args.tier_thorough;
    let scratch = args.get("scratch").unwrap_or("/tmp").to_string();
    let Some(ragc) = args.get("ragc").map(|s| s.to_string()) else {
        rep.inconclusive("no ragc binary given".into());
        return;
    };
    let dir = format!("{}/pr-{}-{}", scratch, std::process::id(), args.shard);
    std::fs::create_dir_all(&dir).unwrap();
    let nsets = args.get_u64("n", if thorough { 160 } else { 16 });
    let only: Option<u64> = args.case.as_ref().and_then(|c| c.parse().ok());
    let big_only = args.case.as_deref().map(|c| c.contains("big")).unwrap_or(false);
    for i in 0..nsets {
        if big_only {
            break;
        }
        if !args.mine(i) {
            continue;
        }
        if let Some(c) = only {
            if c != i {
                continue;
            }
        }
        let mut rng = Rng::derive(args.seed, 0xC19, i);
        let mut p = gen::params(&mut rng, true);
        p.fallback = *rng.pick(&[0.0, 0.0, 0.05]);
        p.capacity = 1 << 30;
        p.single_file = false;
        p.pack = 50;
        let shape = Shape { max_samples: 5, max_contigs: 4, max_contig_len: 2500, iupac: true, allow_many_samples: false };
        let mut set = gen::sample_set(&mut rng, &p, &shape);
        let pansn = i % 2 == 0;
        // sample names whose order of appearance is not their lexicographic order (V9 < V10 ...)
        let mut tags: Vec<usize> = (0..set.samples.len()).map(|j| [9usize, 10, 2, 33, 1, 100, 5][j % 7] + 7 * (j / 7)).collect();
        if i % 4 >= 2 {
            tags.sort();
        }
        // every third set: each sample name is a string prefix of the next one ("S#1", "S#10",
        // "S#100"; "v1", "v10", ...), in one block of consecutive samples
        let nested = i % 3 == 1;
        if nested {
            rep.count("sets_with_sample_names_that_are_prefixes_of_each_other", 1);
        }
        for (j, s) in set.samples.iter_mut().enumerate() {
            let sn = if nested {
                let digits = ["1", "10", "100", "1000", "2", "20", "200"][j % 7];
                if pansn { format!("S#{}", digits) } else { format!("v{}", digits) }
            } else if pansn {
                format!("V{}#{}", tags[j], j % 2)
            } else {
                format!("v{}", tags[j])
            };
            for (cj, c) in s.contigs.iter_mut().enumerate() {
                let desc = c.0.split_once(' ').map(|(_, d)| format!(" {}", d)).unwrap_or_default();
                c.0 = if pansn { format!("{}#c{}{}", sn, cj, desc) } else { format!("c{}{}", cj, desc) };
            }
            s.name = sn;
        }
        set.pansn = pansn;
        let total_contigs: usize = set.samples.iter().map(|s| s.contigs.len()).sum();
        // presentations
        let mut pres: Vec<Presentation> = vec![Presentation::plain()];
        let widths = [1usize, 2, 59, 60, 80, 100_000];
        let count = if thorough { 13 } else { 6 };
        for v in 0..count {
            let mut q = Presentation::plain();
            q.gz = [0u8, 1, 2, 2][v % 4];
            q.width = *rng.pick(&widths);
            q.crlf = rng.chance(1, 3);
            q.case = rng.below(3) as u8;
            q.final_newline = !rng.chance(1, 5);
            q.single_file = pansn && v % 3 == 2;
            pres.push(q);
        }
        let mut base_multi: Option<Outcome> = None;
        let mut base_single: Option<(Outcome, String)> = None;
        let mut bad: Option<(String, String)> = None;
        for (vi, q) in pres.iter().enumerate() {
            let idir = format!("{}/s{}v{}", dir, i, vi);
            std::fs::create_dir_all(&idir).unwrap();
            let (inputs, notes) = cli::write_inputs(&idir, &set, q, &mut rng, "");
            let mut pq = p.clone();
            pq.single_file = q.single_file;
            let r = build(&ragc, &idir, &inputs, &pq, "a");
            let _ = std::fs::remove_dir_all(&idir);
            rep.evaluations += 1;
            rep.count(&format!("presentations_{}", ["plain", "gzip", "gzip_multimember"][q.gz as usize]), 1);
            if q.single_file {
                rep.count("presentations_single_pansn_file", 1);
            }
            if q.crlf {
                rep.count("presentations_crlf", 1);
            }
            if q.case > 0 {
                rep.count("presentations_lower_or_mixed_case", 1);
            }
            for n in &notes {
                if rep.notes.len() < 4 {
                    rep.notes.push(n.clone());
                }
                rep.count("gzip_member_boundaries_placed", n.matches(',').count() as u64 + 1);
            }
            let out = match r {
                Ok(o) => o,
                Err(e) => {
                    if vi == 0 {
                        rep.inconclusive(format!("set {}: baseline presentation failed: {}", i, e));
                        break;
                    }
                    // the same sequences are accepted in the baseline presentation
                    bad = Some((format!("rejected: presentation [{}] fails although the plain presentation of the same sequences succeeds: {}", q.describe(), e), q.describe()));
                    break;
                }
            };
            if vi == 0 {
                base_multi = Some(out);
                continue;
            }
            let b = base_multi.as_ref().unwrap();
            if out.listing != b.listing {
                bad = Some((format!("listing: sample list differs for presentation [{}]: {:?} vs {:?}", q.describe(), out.listing, b.listing), q.describe()));
                break;
            }
            if out.extraction != b.extraction {
                let which = out.extraction.iter().zip(b.extraction.iter()).position(|(x, y)| x != y).unwrap_or(0);
                bad = Some((format!("extraction: extracted contigs of sample {:?} differ for presentation [{}]", out.listing.get(which), q.describe()), q.describe()));
                break;
            }
            if !q.single_file {
                // differs from the baseline only in compression, wrapping, line ends, case
                if out.sha != b.sha {
                    bad = Some((format!("bytes: archive differs from the plain presentation although only compression/wrapping/line ends/case changed [{}]", q.describe()), q.describe()));
                    break;
                }
                rep.count("byte_identity_checks", 1);
            } else {
                match &base_single {
                    None => base_single = Some((out, q.describe())),
                    Some((s, sd)) => {
                        if out.sha != s.sha {
                            bad = Some((format!("bytes: two single-file presentations that differ only in compression/wrapping/line ends/case give different archives [{}] vs [{}]", q.describe(), sd), q.describe()));
                            break;
                        }
                        rep.count("byte_identity_checks", 1);
                    }
                }
                // single PanSN file vs one file per sample: reported, not judged
                if let Some((s, _)) = &base_single {
                    if total_contigs < p.pack {
                        rep.count(if s.sha == b.sha { "pansn_vs_per_sample_identical_bytes" } else { "pansn_vs_per_sample_different_bytes" }, 1);
                    }
                }
            }
        }
        match bad {
            Some((w, _)) => rep.violation(
                &format!("C19:{}", w.split(':').next().unwrap_or("")),
                jobj(&[
                    ("what", jstr(&vcommon::clip(&w, 900))),
                    ("workload", jstr("vh c19")),
                    ("seed", args.seed.to_string()),
                    ("case", i.to_string()),
                    ("params", p.json()),
                    ("input", set.brief()),
                ]),
            ),
            None => {
                if base_multi.is_some() {
                    rep.nontrivial(set.digest() ^ fnv(p.describe().as_bytes()));
                    if rep.samples.len() < 2 {
                        let d: Vec<String> = pres.iter().map(|q| jstr(&q.describe())).collect();
                        rep.sample(jobj(&[("set", i.to_string()), ("input", set.brief()), ("presentations", vcommon::jarr(&d))]));
                    }
                }
            }
        }
    }
    // inputs larger than ragc's 4 MiB read buffer: a record header that starts exactly at the
    // 4 MiB mark of the plain file, sequence lines longer than the buffer (unwrapped FASTA)
    let nbig = args.get_u64("big", if thorough { 3 } else { 1 });
    for b in 0..nbig {
        let wanted = match args.case.as_deref() {
            None => args.mine(nsets + b),
            Some(c) => c.trim_matches('"') == format!("big{}", b),
        };
        if !wanted {
            continue;
        }
        big_case(args, rep, &ragc, &dir, b);
    }
    let _ = std::fs::remove_dir_all(&dir);
}

fn big_case(args: &Args, rep: &mut Report, ragc: &str, dir: &str, b: u64) {
    let mut rng = Rng::derive(args.seed, 0xC19B, b);
    let mut p = gen::params(&mut rng, true);
    p.k = *rng.pick(&[15usize, 21, 31]);
    p.segment_size = *rng.pick(&[5000usize, 20000, 60000]);
    p.fallback = 0.0;
    p.capacity = 1 << 30;
    p.single_file = false;
    p.pack = 50;
    p.threads = 8;
    // first record: ">c0\n" (4 bytes) + L bases in lines of 60 => the second header starts at
    // 4 + L + ceil(L/60); choose L so that this is exactly 4 MiB (b = 0), 4 MiB + 1 or 4 MiB - 1
    let target = match b % 3 {
        0 => 4usize << 20,
        1 => (4usize << 20) + 1,
        _ => (4usize << 20) - 1,
    };
    // 1 + name + 1 header bytes; not every remainder modulo 61 can be hit, so the description
    // behind the name is lengthened until the second header lands exactly on the target
    let mut name0 = String::from("c0");
    let mut l0 = 0usize;
    let mut aligned = false;
    for pad in 0..8 {
        name0 = if pad == 0 { "c0".to_string() } else { format!("c0 {}", "x".repeat(pad)) };
        let h = name0.len() + 2;
        l0 = (target - h) * 60 / 61;
        while h + l0 + (l0 + 59) / 60 < target {
            l0 += 1;
        }
        if h + l0 + (l0 + 59) / 60 == target {
            aligned = true;
            break;
        }
    }
    let lens = [l0, 2_300_000 + rng.usize(0, 1000), 150_000];
    let base: Vec<Vec<u8>> = lens.iter().map(|&l| gen::random_bases(&mut rng, l)).collect();
    let mut samples = Vec::new();
    for (si, name) in ["big9", "big10"].iter().enumerate() {
        let contigs: Vec<(String, Vec<u8>)> = base
            .iter()
            .enumerate()
            .map(|(ci, c)| {
                let mut d = c.clone();
                if si > 0 {
                    // sparse SNPs and one N run
                    for _ in 0..d.len() / 500 {
                        let at = rng.usize(0, d.len() - 1);
                        d[at] = rng.below(4) as u8;
                    }
                    let at = rng.usize(0, d.len() - 40);
                    for x in d[at..at + 30].iter_mut() {
                        *x = 4;
                    }
                }
                (if ci == 0 { name0.clone() } else { format!("c{}", ci) }, d)
            })
            .collect();
        samples.push(gen::Sample { name: name.to_string(), contigs });
    }
    let set = gen::SampleSet { samples, pansn: false };
    let mut pres: Vec<Presentation> = vec![Presentation::plain()];
    let mut q = Presentation::plain();
    q.width = 50_000_000; // unwrapped: every sequence on one line, longer than the read buffer
    pres.push(q.clone());
    q.gz = 2;
    q.crlf = true;
    q.width = 80;
    pres.push(q.clone());
    let mut q = Presentation::plain();
    q.gz = 1;
    q.width = 4 << 20; // lines of exactly the buffer size
    q.case = 1;
    pres.push(q);
    let mut base_out: Option<Outcome> = None;
    let mut bad: Option<String> = None;
    for (vi, q) in pres.iter().enumerate() {
        let idir = format!("{}/big{}v{}", dir, b, vi);
        std::fs::create_dir_all(&idir).unwrap();
        let (inputs, _) = cli::write_inputs(&idir, &set, q, &mut rng, "");
        let r = build(ragc, &idir, &inputs, &p, "a");
        let _ = std::fs::remove_dir_all(&idir);
        rep.evaluations += 1;
        rep.count("presentations_of_inputs_beyond_the_4MiB_read_buffer", 1);
        let out = match r {
            Ok(o) => o,
            Err(e) => {
                if vi == 0 || e == "watchdog" {
                    rep.inconclusive(format!("big set {}: presentation [{}] failed: {}", b, q.describe(), e));
                } else {
                    bad = Some(format!("rejected: presentation [{}] fails although the plain presentation of the same sequences succeeds: {}", q.describe(), e));
                }
                break;
            }
        };
        if vi == 0 {
            // the baseline itself is compared with the input (C01's oracle), so that a fault that
            // hits only the aligned plain file is seen
            for (si, s) in set.samples.iter().enumerate() {
                let got = cli::parse_fasta(out.extraction.get(si).map(|v| &v[..]).unwrap_or(&[]));
                let want: Vec<(String, Vec<u8>)> = s.contigs.iter().map(|(n, c)| (n.clone(), cli::codes_to_ascii(c))).collect();
                if got != want {
                    bad = Some(format!("extraction: sample {:?} of the plain presentation (second header at byte {}) does not equal the input", s.name, target));
                }
            }
            if aligned {
                rep.count("plain_inputs_with_a_header_at_the_4MiB_mark", 1);
            }
            base_out = Some(out);
            if bad.is_some() {
                break;
            }
            continue;
        }
        let bo = base_out.as_ref().unwrap();
        if out.listing != bo.listing {
            bad = Some(format!("listing: sample list differs for presentation [{}]", q.describe()));
        } else if out.extraction != bo.extraction {
            bad = Some(format!("extraction: extracted contigs differ for presentation [{}] of a {}-MB input", q.describe(), set.total_bases() >> 20));
        } else if out.sha != bo.sha {
            bad = Some(format!("bytes: archive differs from the plain presentation although only compression/wrapping/line ends/case changed [{}]", q.describe()));
        } else {
            rep.count("byte_identity_checks", 1);
        }
        if bad.is_some() {
            break;
        }
    }
    match bad {
        Some(w) => rep.violation(
            &format!("C19:{}", w.split(':').next().unwrap_or("")),
            jobj(&[("what", jstr(&vcommon::clip(&w, 900))), ("workload", jstr("vh c19")), ("seed", args.seed.to_string()), ("case", jstr(&format!("big{}", b))), ("params", p.json())]),
        ),
        None => {
            if base_out.is_some() {
                rep.nontrivial(set.digest() ^ fnv(p.describe().as_bytes()));
            }
        }
    }
}
