//! C19: extraction is invariant under how the input is presented; presentations that differ
//! only in compression, wrapping, line ends or case give byte-identical archives.

use crate::cli::{self, Presentation};
use crate::drive;
use crate::gen::{self, Params, Shape};
use std::process::Command;
use vcommon::{fnv, jobj, jstr, Args, Report, Rng};

struct Outcome {
    sha: String,
    listing: Vec<String>,
    extraction: Vec<Vec<u8>>, // per listed sample: getset stdout
}

fn build(ragc: &str, dir: &str, inputs: &[String], p: &Params, tag: &str) -> Result<Outcome, String> {
    let arch = format!("{}/{}.agc", dir, tag);
    let o = cli::run(&mut cli::create_cmd(ragc, &arch, inputs, p), cli::TIMEOUT);
    if o.timed_out {
        return Err("watchdog".into());
    }
    if !o.ok() {
        return Err(format!("create failed (exit {:?}): {}", o.code, o.stderr_tail()));
    }
    let sha = drive::sha256_file(&arch).map_err(|e| format!("{e}"))?;
    let ls = cli::run(Command::new(ragc).arg("listset").arg(&arch), cli::TIMEOUT);
    if !ls.ok() {
        return Err(format!("listset failed (exit {:?})", ls.code));
    }
    let listing: Vec<String> = String::from_utf8_lossy(&ls.stdout).lines().map(|s| s.to_string()).collect();
    let mut extraction = Vec::new();
    for s in &listing {
        let g = cli::run(Command::new(ragc).arg("getset").arg(&arch).arg(s), cli::TIMEOUT);
        if !g.ok() {
            return Err(format!("getset {:?} failed (exit {:?}): {}", s, g.code, g.stderr_tail()));
        }
        extraction.push(g.stdout);
    }
    let _ = std::fs::remove_file(&arch);
    Ok(Outcome { sha, listing, extraction })
}

pub fn run(args: &Args, rep: &mut Report) {
    let thorough = args.tier_thorough;
    let scratch = args.get("scratch").unwrap_or("/tmp").to_string();
    let Some(ragc) = args.get("ragc").map(|s| s.to_string()) else {
        rep.inconclusive("no ragc binary given".into());
        return;
    };
    let dir = format!("{}/pr-{}-{}", scratch, std::process::id(), args.shard);
    std::fs::create_dir_all(&dir).unwrap();
    let nsets = args.get_u64("n", if thorough { 160 } else { 16 });
    let only: Option<u64> = args.case.as_ref().and_then(|c| c.parse().ok());
    for i in 0..nsets {
        if !args.mine(i) {
            continue;
        }
        if let Some(c) = only {
            if c != i {
                continue;
            }
        }
        let mut rng = Rng::derive(args.seed, 0xC19, i);
        let mut p = gen::params(&mut rng, true);
        p.fallback = *rng.pick(&[0.0, 0.0, 0.05]);
        p.capacity = 1 << 30;
        p.single_file = false;
        p.pack = 50;
        let shape = Shape { max_samples: 5, max_contigs: 4, max_contig_len: 2500, iupac: true, allow_many_samples: false };
        let mut set = gen::sample_set(&mut rng, &p, &shape);
        let pansn = i % 2 == 0;
        // sample names whose order of appearance is not their lexicographic order (V9 < V10 ...)
        let mut tags: Vec<usize> = (0..set.samples.len()).map(|j| [9usize, 10, 2, 33, 1, 100, 5][j % 7] + 7 * (j / 7)).collect();
        if i % 4 >= 2 {
            tags.sort();
        }
        for (j, s) in set.samples.iter_mut().enumerate() {
            let sn = if pansn { format!("V{}#{}", tags[j], j % 2) } else { format!("v{}", tags[j]) };
            for (cj, c) in s.contigs.iter_mut().enumerate() {
                let desc = c.0.split_once(' ').map(|(_, d)| format!(" {}", d)).unwrap_or_default();
                c.0 = if pansn { format!("{}#c{}{}", sn, cj, desc) } else { format!("c{}{}", cj, desc) };
            }
            s.name = sn;
        }
        set.pansn = pansn;
        let total_contigs: usize = set.samples.iter().map(|s| s.contigs.len()).sum();
        // presentations
        let mut pres: Vec<Presentation> = vec![Presentation::plain()];
        let widths = [1usize, 2, 59, 60, 80, 100_000];
        let count = if thorough { 13 } else { 6 };
        for v in 0..count {
            let mut q = Presentation::plain();
            q.gz = [0u8, 1, 2, 2][v % 4];
            q.width = *rng.pick(&widths);
            q.crlf = rng.chance(1, 3);
            q.case = rng.below(3) as u8;
            q.final_newline = !rng.chance(1, 5);
            q.single_file = pansn && v % 3 == 2;
            pres.push(q);
        }
        let mut base_multi: Option<Outcome> = None;
        let mut base_single: Option<(Outcome, String)> = None;
        let mut bad: Option<(String, String)> = None;
        for (vi, q) in pres.iter().enumerate() {
            let idir = format!("{}/s{}v{}", dir, i, vi);
            std::fs::create_dir_all(&idir).unwrap();
            let (inputs, notes) = cli::write_inputs(&idir, &set, q, &mut rng, "");
            let mut pq = p.clone();
            pq.single_file = q.single_file;
            let r = build(&ragc, &idir, &inputs, &pq, "a");
            let _ = std::fs::remove_dir_all(&idir);
            rep.evaluations += 1;
            rep.count(&format!("presentations_{}", ["plain", "gzip", "gzip_multimember"][q.gz as usize]), 1);
            if q.single_file {
                rep.count("presentations_single_pansn_file", 1);
            }
            if q.crlf {
                rep.count("presentations_crlf", 1);
            }
            if q.case > 0 {
                rep.count("presentations_lower_or_mixed_case", 1);
            }
            for n in &notes {
                if rep.notes.len() < 4 {
                    rep.notes.push(n.clone());
                }
                rep.count("gzip_member_boundaries_placed", n.matches(',').count() as u64 + 1);
            }
            let out = match r {
                Ok(o) => o,
                Err(e) => {
                    if vi == 0 {
                        rep.inconclusive(format!("set {}: baseline presentation failed: {}", i, e));
                        break;
                    }
                    // the same sequences are accepted in the baseline presentation
                    bad = Some((format!("rejected: presentation [{}] fails although the plain presentation of the same sequences succeeds: {}", q.describe(), e), q.describe()));
                    break;
                }
            };
            if vi == 0 {
                base_multi = Some(out);
                continue;
            }
            let b = base_multi.as_ref().unwrap();
            if out.listing != b.listing {
                bad = Some((format!("listing: sample list differs for presentation [{}]: {:?} vs {:?}", q.describe(), out.listing, b.listing), q.describe()));
                break;
            }
            if out.extraction != b.extraction {
                let which = out.extraction.iter().zip(b.extraction.iter()).position(|(x, y)| x != y).unwrap_or(0);
                bad = Some((format!("extraction: extracted contigs of sample {:?} differ for presentation [{}]", out.listing.get(which), q.describe()), q.describe()));
                break;
            }
            if !q.single_file {
                // differs from the baseline only in compression, wrapping, line ends, case
                if out.sha != b.sha {
                    bad = Some((format!("bytes: archive differs from the plain presentation although only compression/wrapping/line ends/case changed [{}]", q.describe()), q.describe()));
                    break;
                }
                rep.count("byte_identity_checks", 1);
            } else {
                match &base_single {
                    None => base_single = Some((out, q.describe())),
                    Some((s, sd)) => {
                        if out.sha != s.sha {
                            bad = Some((format!("bytes: two single-file presentations that differ only in compression/wrapping/line ends/case give different archives [{}] vs [{}]", q.describe(), sd), q.describe()));
                            break;
                        }
                        rep.count("byte_identity_checks", 1);
                    }
                }
                // single PanSN file vs one file per sample: reported, not judged
                if let Some((s, _)) = &base_single {
                    if total_contigs < p.pack {
                        rep.count(if s.sha == b.sha { "pansn_vs_per_sample_identical_bytes" } else { "pansn_vs_per_sample_different_bytes" }, 1);
                    }
                }
            }
        }
        match bad {
            Some((w, _)) => rep.violation(
                &format!("C19:{}", w.split(':').next().unwrap_or("")),
                jobj(&[
                    ("what", jstr(&vcommon::clip(&w, 900))),
                    ("workload", jstr("vh c19")),
                    ("seed", args.seed.to_string()),
                    ("case", i.to_string()),
                    ("params", p.json()),
                    ("input", set.brief()),
                ]),
            ),
            None => {
                if base_multi.is_some() {
                    rep.nontrivial(set.digest() ^ fnv(p.describe().as_bytes()));
                    if rep.samples.len() < 2 {
                        let d: Vec<String> = pres.iter().map(|q| jstr(&q.describe())).collect();
                        rep.sample(jobj(&[("set", i.to_string()), ("input", set.brief()), ("presentations", vcommon::jarr(&d))]));
                    }
                }
            }
        }
    }
    let _ = std::fs::remove_dir_all(&dir);
}
