//! C07: range and length queries agree with full extraction.

use crate::cli;
use crate::drive;
use crate::gen::{self, Shape};
use ragc_core::Decompressor;
use std::collections::BTreeSet;
use std::panic::{catch_unwind, AssertUnwindSafe};
use vcommon::{fnv, jobj, jstr, Args, Report, Rng};

struct QStats {
    far_end: u64,
    alternating: u64,
    queries: u64,
    multi_segment: u64,
    in_overlap: u64,
    touch_rc: u64,
    empty_result: u64,
    beyond_end: u64,
}

fn check_contig(
    d: &mut Decompressor,
    path: &str,
    sample: &str,
    contig: &str,
    k: usize,
    rng: &mut Rng,
    st: &mut QStats,
    exhaustive_limit: usize,
) -> Result<(), String> {
    let full = d.get_contig(sample, contig).map_err(|e| format!("error: get_contig failed: {:#}", e))?;
    let len = full.len();
    let l = d.get_contig_length(sample, contig).map_err(|e| format!("error: get_contig_length failed: {:#}", e))?;
    if l != len {
        return Err(format!("length: get_contig_length = {} but the extracted contig has {} bases", l, len));
    }
    let desc = d.get_contig_segments_desc(sample, contig).map_err(|e| format!("error: segments_desc failed: {:#}", e))?;
    // segment start positions in contig coordinates (contribution of segment i starts here)
    let mut starts = Vec::new();
    let mut pos = 0usize;
    for (i, s) in desc.iter().enumerate() {
        starts.push(pos);
        pos += if i == 0 { s.raw_length as usize } else { (s.raw_length as usize).saturating_sub(k) };
    }
    let any_rc = desc.iter().any(|s| s.is_rev_comp);
    let mut pairs: Vec<(usize, usize)> = Vec::new();
    if len <= exhaustive_limit {
        for a in 0..=len + 2 {
            for b in 0..=len + 2 {
                pairs.push((a, b));
            }
        }
    } else {
        let mut pts: BTreeSet<usize> = BTreeSet::new();
        for x in [0usize, 1, len.saturating_sub(1), len, len + 1, len + 2, len / 2] {
            pts.insert(x);
        }
        for &j in &starts {
            for dlt in [0usize, 1, k.saturating_sub(1), k, k + 1] {
                pts.insert(j + dlt);
                pts.insert(j.saturating_sub(dlt));
            }
        }
        let pts: Vec<usize> = pts.into_iter().collect();
        // all pairs if few points, otherwise a random subset plus all adjacent ones
        if pts.len() <= 60 {
            for &a in &pts {
                for &b in &pts {
                    pairs.push((a, b));
                }
            }
        } else {
            for w in pts.windows(3) {
                pairs.push((w[0], w[2]));
                pairs.push((w[1], w[2]));
                pairs.push((w[2], w[0]));
            }
            for _ in 0..3000 {
                pairs.push((*rng.pick(&pts), *rng.pick(&pts)));
            }
        }
        for _ in 0..200 {
            let a = rng.usize(0, len + 1);
            let b = rng.usize(0, len + 2);
            pairs.push((a, b));
        }
    }
    // "every pair of positions": ends far beyond the contig, up to the largest value of the type
    // ("to the end" is commonly written as end = MAX); values above isize::MAX make an unclamped
    // buffer reservation panic (catchable), the moderately large ones must simply be clamped
    let far = [len + (1 << 20), u32::MAX as usize, (isize::MAX as usize) + 1, usize::MAX - 1, usize::MAX];
    for &b in &far {
        for a in [0usize, len / 2, len.saturating_sub(1), len, len + 1, b, b - 1] {
            pairs.push((a, b));
        }
    }
    st.far_end += (far.len() * 7) as u64;
    let mut fresh_every = 0usize;
    for (a, b) in pairs {
        st.queries += 1;
        let want: &[u8] = if a >= b || a >= len { &[] } else { &full[a..b.min(len)] };
        fresh_every += 1;
        let got = if fresh_every % 97 == 0 {
            let mut f = drive::open(path).map_err(|e| format!("error: reopen failed: {:#}", e))?;
            f.get_contig_range(sample, contig, a, b)
        } else {
            d.get_contig_range(sample, contig, a, b)
        }
        .map_err(|e| format!("error: get_contig_range({},{}) failed: {:#}", a, b, e))?;
        if got != want {
            return Err(format!(
                "range: get_contig_range({}, {}) returned {} bases, expected {} (contig length {}, segment starts {:?})",
                a,
                b,
                got.len(),
                want.len(),
                len,
                &starts[..starts.len().min(12)]
            ));
        }
        if want.is_empty() {
            st.empty_result += 1;
        }
        if b > len {
            st.beyond_end += 1;
        }
        if !want.is_empty() {
            let first_seg = starts.partition_point(|&s| s <= a) - 1;
            let last_seg = starts.partition_point(|&s| s < b.min(len)) - 1;
            if last_seg > first_seg {
                st.multi_segment += 1;
            }
            if any_rc {
                st.touch_rc += 1;
            }
            if starts.iter().skip(1).any(|&s| (a >= s.saturating_sub(k) && a < s) || (b > s.saturating_sub(k) && b <= s)) {
                st.in_overlap += 1;
            }
        }
    }
    Ok(())
}

pub fn run(args: &Args, rep: &mut Report) {
    let thorough = args.tier_thorough;
    let n = args.get_u64("n", if thorough { 600 } else { 48 });
    let scratch = args.get("scratch").unwrap_or("/tmp").to_string();
    let ragc = args.get("ragc").map(|s| s.to_string());
    let dir = format!("{}/rg-{}-{}", scratch, std::process::id(), args.shard);
    std::fs::create_dir_all(&dir).unwrap();
    let only: Option<u64> = args.case.as_ref().and_then(|c| c.parse().ok());
    let mut st = QStats { far_end: 0, alternating: 0, queries: 0, multi_segment: 0, in_overlap: 0, touch_rc: 0, empty_result: 0, beyond_end: 0 };
    for i in 0..n {
        if !args.mine(i) {
            continue;
        }
        if let Some(c) = only {
            if c != i {
                continue;
            }
        }
        let mut rng = Rng::derive(args.seed, 0xC07, i);
        let mut p = gen::params(&mut rng, true);
        p.threads = rng.usize(1, 4);
        let shape = Shape { max_samples: 5, max_contigs: 4, max_contig_len: 3000, iupac: true, allow_many_samples: false };
        let set = gen::sample_set(&mut rng, &p, &shape);
        let path = format!("{}/a{}.agc", dir, i);
        crate::mon::set_case(i, jobj(&[("case", i.to_string()), ("params", p.json()), ("input", set.brief())]));
        match catch_unwind(AssertUnwindSafe(|| drive::create(&path, &set, &p))) {
            Ok(Ok(())) => {}
            other => {
                rep.inconclusive(format!("case {}: create did not succeed: {:?}", i, other.map(|r| r.map_err(|e| format!("{:#}", e))).map_err(|_| "panic")));
                continue;
            }
        }
        rep.evaluations += 1;
        let before = st.queries;
        let verdict: Result<(), (String, String, String)> = (|| {
            let mut d = drive::open(&path).map_err(|e| (String::new(), String::new(), format!("error: open failed: {:#}", e)))?;
            let mut prev: Option<(String, String)> = None;
            for s in &set.samples {
                for (cname, data) in &s.contigs {
                    if data.is_empty() {
                        continue;
                    }
                    let r = catch_unwind(AssertUnwindSafe(|| check_contig(&mut d, &path, &s.name, cname, p.k, &mut rng, &mut st, if thorough { 160 } else { 90 })));
                    match r {
                        Ok(Ok(())) => {}
                        Ok(Err(w)) => return Err((s.name.clone(), cname.clone(), w)),
                        Err(pn) => return Err((s.name.clone(), cname.clone(), format!("panic: query panicked: {}", drive::panic_message(&pn)))),
                    }
                    // ranges alternating between this contig and the previous one on the same
                    // handle (contigs of different samples share stored segments, also in the
                    // opposite orientation)
                    if let Some((ps, pc)) = prev.clone() {
                        let r = catch_unwind(AssertUnwindSafe(|| -> Result<(), String> {
                            let full_a = d.get_contig(&ps, &pc).map_err(|e| format!("error: get_contig failed: {:#}", e))?;
                            let full_b = d.get_contig(&s.name, cname).map_err(|e| format!("error: get_contig failed: {:#}", e))?;
                            for q in 0..24 {
                                let (sn, cn, full) = if q % 2 == 0 { (&ps, &pc, &full_a) } else { (&s.name, cname, &full_b) };
                                let l = full.len();
                                // mirrored coordinates on every other pair: an inverted copy is hit at the same stored bases
                                let (a0, b0) = (rng.usize(0, l), rng.usize(0, l + 1));
                                let (a, b) = if q % 4 >= 2 { (l.saturating_sub(b0), l.saturating_sub(a0)) } else { (a0, b0) };
                                let want: &[u8] = if a >= b || a >= l { &[] } else { &full[a..b.min(l)] };
                                let got = d.get_contig_range(sn, cn, a, b).map_err(|e| format!("error: get_contig_range({},{}) failed: {:#}", a, b, e))?;
                                st.queries += 1;
                                st.alternating += 1;
                                if got != want {
                                    return Err(format!("range: get_contig_range({}, {}) on {:?}/{:?} returned {} bases that differ from the slice of the fully extracted contig ({} expected), asked right after a range of {:?}/{:?} on the same handle", a, b, sn, cn, got.len(), want.len(), if q % 2 == 0 { &s.name } else { &ps }, if q % 2 == 0 { cname } else { &pc }));
                                }
                            }
                            Ok(())
                        }));
                        match r {
                            Ok(Ok(())) => {}
                            Ok(Err(w)) => return Err((s.name.clone(), cname.clone(), w)),
                            Err(pn) => return Err((s.name.clone(), cname.clone(), format!("panic: query panicked: {}", drive::panic_message(&pn)))),
                        }
                    }
                    prev = Some((s.name.clone(), cname.clone()));
                }
            }
            Ok(())
        })();
        // CLI slice: getrange --format raw and ctglen through the binary
        let mut cli_err: Option<(String, String, String)> = None;
        if verdict.is_ok() && ragc.is_some() && i % 6 == 0 {
            let ragc = ragc.as_ref().unwrap();
            let s = &set.samples[rng.usize(0, set.samples.len() - 1)];
            let (cname, data) = &s.contigs[rng.usize(0, s.contigs.len() - 1)];
            let len = data.len();
            let o = cli::run(std::process::Command::new(ragc).arg("ctglen").arg(&path).arg("-s").arg(&s.name).arg("-c").arg(cname), cli::TIMEOUT);
            let txt = String::from_utf8_lossy(&o.stdout).trim().to_string();
            if !o.ok() || txt != len.to_string() {
                cli_err = Some((s.name.clone(), cname.clone(), format!("length: `ragc ctglen` printed {:?} (exit {:?}) for a contig of {} bases", txt, o.code, len)));
            }
            for qi in 0..6 {
                let a = rng.usize(0, len + 1);
                let b = match qi {
                    4 => u64::MAX as usize,
                    5 => 1usize << 62, // an unclamped reservation of this size aborts the process
                    _ => rng.usize(0, len + 2),
                };
                let o = cli::run(
                    std::process::Command::new(ragc)
                        .arg("getrange")
                        .arg(&path)
                        .arg("-s")
                        .arg(&s.name)
                        .arg("-c")
                        .arg(cname)
                        .arg("--start")
                        .arg(a.to_string())
                        .arg("--end")
                        .arg(b.to_string())
                        .arg("--format")
                        .arg("raw"),
                    cli::TIMEOUT,
                );
                let want: Vec<u8> = if a >= b || a >= len { vec![] } else { cli::codes_to_ascii(&data[a..b.min(len)]) };
                rep.count("cli_range_queries", 1);
                if !o.ok() || o.stdout != want {
                    cli_err = Some((s.name.clone(), cname.clone(), format!("range: `ragc getrange --start {} --end {}` gave {} bytes (exit {:?}), expected {}", a, b, o.stdout.len(), o.code, want.len())));
                }
            }
        }
        if let Err((s, c, w)) = verdict.and(match cli_err {
            Some(e) => Err(e),
            None => Ok(()),
        }) {
            rep.violation(
                &format!("C07:{}", w.split(':').next().unwrap_or("")),
                jobj(&[
                    ("what", jstr(&vcommon::clip(&w, 1200))),
                    ("workload", jstr("vh c07")),
                    ("seed", args.seed.to_string()),
                    ("case", i.to_string()),
                    ("tier_thorough", thorough.to_string()),
                    ("sample", jstr(&s)),
                    ("contig", jstr(&c)),
                    ("params", p.json()),
                    ("input", set.brief()),
                ]),
            );
        } else if st.queries > before {
            rep.nontrivial(set.digest() ^ fnv(p.describe().as_bytes()));
            if rep.samples.len() < 2 {
                rep.sample(jobj(&[("case", i.to_string()), ("params", p.json()), ("input", set.brief()), ("queries", (st.queries - before).to_string())]));
            }
        }
        let _ = std::fs::remove_file(&path);
    }
    rep.count("range_queries", st.queries);
    rep.count("queries_with_an_end_near_the_largest_integer", st.far_end);
    rep.count("queries_alternating_between_two_contigs_on_one_handle", st.alternating);
    rep.count("queries_spanning_several_segments", st.multi_segment);
    rep.count("queries_starting_or_ending_in_an_overlap", st.in_overlap);
    rep.count("queries_on_contigs_with_reverse_complemented_segments", st.touch_rc);
    rep.count("queries_with_empty_result", st.empty_result);
    rep.count("queries_ending_beyond_the_contig", st.beyond_end);
    let _ = std::fs::remove_dir_all(&dir);
}
