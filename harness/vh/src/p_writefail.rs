//! C15: write failures during create are reported, never swallowed. Fault enumeration over the
//! offset at which the first write fails: the child runs with RLIMIT_FSIZE = n and SIGXFSZ
//! ignored, so the write that crosses byte n is cut short and the next one fails with EFBIG -
//! the same shape as a full disk.

use crate::cli::{self, Presentation};
use crate::drive;
use crate::gen::{self, Params, SampleSet, Shape};
use std::collections::BTreeSet;
use std::os::unix::process::CommandExt;
use std::panic::{catch_unwind, AssertUnwindSafe};
use std::process::Command;
use vcommon::{jobj, jstr, Args, Report, Rng};

pub fn inputs(seed: u64, which: u64, big: bool) -> (Params, SampleSet) {
    let mut rng = Rng::derive(seed, 0xC15, which);
    let mut p = gen::params(&mut rng, true);
    p.threads = *rng.pick(&[1usize, 2, 4]);
    p.capacity = 1 << 30;
    p.fallback = 0.0;
    p.single_file = which % 2 == 1;
    if which == 0 {
        // the smallest archive: one short sample
        p.single_file = false;
    }
    let shape = if big {
        p.segment_size = 60_000;
        p.k = 31;
        Shape { max_samples: 2, max_contigs: 2, max_contig_len: 10_000_000, iupac: false, allow_many_samples: false }
    } else {
        Shape { max_samples: if which == 0 { 2 } else { 6 }, max_contigs: if which == 0 { 2 } else { 5 }, max_contig_len: if which % 3 == 0 { 1_500 } else { 20_000 }, iupac: true, allow_many_samples: false }
    };
    let mut set = gen::sample_set(&mut rng, &p, &shape);
    if big {
        // ~18 Mbases of random sequence => an archive beyond the 4 MiB write buffer
        set.samples.truncate(1);
        set.samples[0].contigs = (0..3).map(|j| (format!("{}#big{}", set.samples[0].name, j), gen::random_bases(&mut rng, 6_200_000))).collect();
    }
    for (i, s) in set.samples.iter_mut().enumerate() {
        let sn = format!("W{:03}#{}", i, i % 2);
        for (j, c) in s.contigs.iter_mut().enumerate() {
            c.0 = format!("{}#c{}", sn, j);
        }
        s.name = sn;
    }
    set.pansn = true;
    (p, set)
}

/// Arrange for the child to run with a file-size limit of `n` bytes
fn limit_fsize(cmd: &mut Command, n: u64) {
    unsafe {
        cmd.pre_exec(move || {
            libc::signal(libc::SIGXFSZ, libc::SIG_IGN);
            let lim = libc::rlimit { rlim_cur: n as libc::rlim_t, rlim_max: n as libc::rlim_t };
            if libc::setrlimit(libc::RLIMIT_FSIZE, &lim) != 0 {
                return Err(std::io::Error::last_os_error());
            }
            Ok(())
        });
    }
}

/// Library child: create under whatever limit the parent installed; exit 0 iff finalize() is Ok
pub fn child(args: &Args) -> i32 {
    let which = args.get_u64("which", 0);
    let (p, set) = inputs(args.seed, which, false);
    let out = args.get("archive").expect("archive=");
    match catch_unwind(AssertUnwindSafe(|| drive::create(out, &set, &p))) {
        Ok(Ok(())) => 0,
        Ok(Err(_)) => 7,
        Err(_) => 101,
    }
}

fn archive_is_complete(path: &str, set: &SampleSet) -> Result<(), String> {
    let v = catch_unwind(AssertUnwindSafe(|| drive::extract_all(path))).map_err(|_| "reading the archive panicked".to_string())?.map_err(|e| format!("{:#}", e))?;
    match drive::compare(set, &v) {
        None => Ok(()),
        Some(d) => Err(d),
    }
}

pub fn run(args: &Args, rep: &mut Report) {
    let thorough = args.tier_thorough;
    let scratch = args.get("scratch").unwrap_or("/tmp").to_string();
    let Some(ragc) = args.get("ragc").map(|s| s.to_string()) else {
        rep.inconclusive("no ragc binary given".into());
        return;
    };
    let exe = std::env::current_exe().expect("current_exe");
    let dir = format!("{}/wf-{}-{}", scratch, std::process::id(), args.shard);
    std::fs::create_dir_all(&dir).unwrap();
    let narch = args.get_u64("archives", if thorough { 3 } else { 2 });
    let mut all_exhaustive = true;
    let mut classes: std::collections::BTreeMap<String, u64> = Default::default();
    let ntotal = narch + (thorough as u64);
    for which in 0..ntotal {
        let big = which == narch;
        // each shard works on one archive only (the unlimited reference runs are expensive);
        // the shards that share an archive split its offsets
        let (group_size, my_index) = if args.nshards >= ntotal {
            if args.shard % ntotal != which {
                continue;
            }
            ((args.nshards - which + ntotal - 1) / ntotal, args.shard / ntotal)
        } else {
            (args.nshards, args.shard)
        };
        let first_of_group = my_index == 0;
        let (p, set) = inputs(args.seed, which, big);
        let mut rng = Rng::derive(args.seed, 0xC15A, which);
        let mut pr = Presentation::plain();
        pr.single_file = p.single_file;
        let idir = format!("{}/in{}", dir, which);
        std::fs::create_dir_all(&idir).unwrap();
        let (inputs_paths, _) = cli::write_inputs(&idir, &set, &pr, &mut rng, "");
        // reference run without a limit: final size
        let clean = format!("{}/clean{}.agc", dir, which);
        let o = cli::run(&mut cli::create_cmd(&ragc, &clean, &inputs_paths, &p), cli::TIMEOUT);
        if !o.ok() {
            rep.inconclusive(format!("archive {}: unlimited create failed: exit {:?} {}", which, o.code, o.stderr_tail()));
            continue;
        }
        let size = std::fs::metadata(&clean).map(|m| m.len()).unwrap_or(0);
        if let Err(e) = archive_is_complete(&clean, &set) {
            rep.inconclusive(format!("archive {}: unlimited create gave an incomplete archive: {}", which, e));
            continue;
        }
        // the library path produces its own (possibly different) file: measure it too
        let lib_clean = format!("{}/libclean{}.agc", dir, which);
        let lib_size = if big {
            0
        } else {
            let mut c = Command::new(&exe);
            c.arg("c15child").arg("--seed").arg(args.seed.to_string()).arg(format!("which={}", which)).arg(format!("archive={}", lib_clean));
            let o = cli::run(&mut c, cli::TIMEOUT);
            if o.code != Some(0) {
                rep.inconclusive(format!("archive {}: unlimited library create failed: {:?}", which, o.code));
                0
            } else {
                std::fs::metadata(&lib_clean).map(|m| m.len()).unwrap_or(0)
            }
        };
        // offsets
        let mut offs: BTreeSet<u64> = BTreeSet::new();
        // every offset only for the smallest archive of the thorough tier: a create costs ~1.5 s
        // of CPU (ZSTD level-19 contexts for the metadata streams), and below the 4 MiB write
        // buffer every offset inside one write() call takes the same path through ragc
        let exhaustive = thorough && which == 0 && size <= 6_000;
        if exhaustive {
            offs.extend(0..=size + 2);
        } else {
            all_exhaustive = false;
            let n = if big { 40 } else if thorough { 400 } else { 24 };
            for i in 0..n {
                offs.insert((i as u128 * size as u128 / n as u128) as u64);
                offs.insert(rng.range(0, size));
            }
            offs.extend(size.saturating_sub(if big { 12 } else if thorough { 70 } else { 12 })..=size + 2); // footer and its 8-byte length
            if let Ok(bytes) = std::fs::read(&clean) {
                // both sides of the boundary between the data area and the footer
                if let Ok((_, fstart)) = agcdec::part_spans(&bytes) {
                    let f = fstart as u64;
                    offs.extend([f.saturating_sub(1), f, f + 1]);
                }
            }
            offs.extend(0..(if big || !thorough { 3 } else { 16 }));
            if big {
                // both sides of every 4 MiB buffer boundary
                let mut b = 4u64 << 20;
                while b < size {
                    offs.extend([b - 1, b, b + 1]);
                    b += 4 << 20;
                }
            }
        }
        rep.max("largest_archive_bytes", size);
        if first_of_group {
            rep.count(if exhaustive { "archives_with_every_offset_tried" } else { "archives_sampled" }, 1);
            rep.sample(jobj(&[
                ("archive_index", which.to_string()),
                ("final_size_cli", size.to_string()),
                ("final_size_library", lib_size.to_string()),
                ("every_offset_tried", exhaustive.to_string()),
                ("params", p.json()),
                ("input", set.brief()),
            ]));
        }
        for n in offs.iter().copied().enumerate().filter(|(idx, _)| *idx as u64 % group_size == my_index).map(|(_, o)| o) {
            for via_lib in [false, true] {
                if via_lib && (big || lib_size == 0 || n % 4 != 0 && !(n + 80 > lib_size)) {
                    continue; // library path: every 4th offset plus the footer region
                }
                let fsize = if via_lib { lib_size } else { size };
                let out = format!("{}/o{}_{}_{}.agc", dir, which, n, via_lib as u8);
                let mut cmd = if via_lib {
                    let mut c = Command::new(&exe);
                    c.arg("c15child").arg("--seed").arg(args.seed.to_string()).arg(format!("which={}", which)).arg(format!("archive={}", out));
                    c
                } else {
                    cli::create_cmd(&ragc, &out, &inputs_paths, &p)
                };
                limit_fsize(&mut cmd, n);
                let o = cli::run(&mut cmd, cli::TIMEOUT);
                rep.evaluations += 1;
                rep.distinct_by_construction += 1;
                rep.count(if via_lib { "runs_library_finalize" } else { "runs_ragc_binary" }, 1);
                if o.timed_out {
                    rep.inconclusive(format!("archive {} limit {}: wall-clock watchdog", which, n));
                    let _ = std::fs::remove_file(&out);
                    continue;
                }
                let must_fail = n < fsize;
                let mut bad: Option<String> = None;
                if o.code == Some(0) {
                    if must_fail {
                        bad = Some(format!(
                            "swallowed: create reported success although the file-size limit ({}) is below the archive size ({}); {} bytes are on disk",
                            n,
                            fsize,
                            std::fs::metadata(&out).map(|m| m.len()).unwrap_or(0)
                        ));
                    } else if let Err(e) = archive_is_complete(&out, &set) {
                        bad = Some(format!("incomplete: create reported success (limit {} >= size {}) but the archive is not complete: {}", n, fsize, e));
                    }
                    *classes.entry("exit 0".into()).or_insert(0) += 1;
                } else {
                    if !must_fail {
                        // failing although everything fits is not what C15 is about, but it is odd
                        rep.count("failed_although_limit_was_sufficient", 1);
                    }
                    let s = String::from_utf8_lossy(&o.stderr);
                    let class = if via_lib {
                        format!("library exit {:?}", o.code)
                    } else if s.contains("panicked") {
                        "panic message".to_string()
                    } else if s.contains("File too large") || s.contains("os error 27") {
                        "EFBIG reported".to_string()
                    } else if s.contains("write zero") || s.contains("WriteZero") || s.contains("failed to write whole buffer") {
                        "short write reported".to_string()
                    } else {
                        format!("other error, exit {:?}", o.code)
                    };
                    *classes.entry(class).or_insert(0) += 1;
                }
                if let Some(w) = bad {
                    rep.violation(
                        &format!("C15:{}", w.split(':').next().unwrap_or("")),
                        jobj(&[
                            ("what", jstr(&vcommon::clip(&w, 800))),
                            ("workload", jstr("vh c15")),
                            ("seed", args.seed.to_string()),
                            ("archive_index", which.to_string()),
                            ("file_size_limit", n.to_string()),
                            ("via", jstr(if via_lib { "library (finalize)" } else { "ragc binary" })),
                            ("params", p.json()),
                        ]),
                    );
                }
                let _ = std::fs::remove_file(&out);
            }
        }
        let _ = std::fs::remove_dir_all(&idir);
        let _ = std::fs::remove_file(&clean);
        let _ = std::fs::remove_file(&lib_clean);
    }
    for (k, v) in classes {
        rep.count(&format!("outcome[{}]", k), v);
    }
    rep.exhaustive = Some(all_exhaustive);
    let _ = std::fs::remove_dir_all(&dir);
}
