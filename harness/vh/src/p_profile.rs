//! C18: behaviour is independent of integer-overflow checking. This workload is run twice by
//! the driver - once built with overflow checks (dev profile) and once optimised - on the same
//! seeded cases; it prints one record per case and the driver compares them. A panic whose
//! message names an arithmetic overflow is a violation on its own.

use crate::cli::{self, Presentation};
use crate::drive;
use crate::gen::{self, Shape};
use crate::mon;
use crate::{p_determinism, p_roundtrip, p_trunc};
use ragc_core::{Decompressor, DecompressorConfig};
use std::panic::{catch_unwind, AssertUnwindSafe};
use vcommon::{jobj, jstr, Args, Report, Rng};

fn profile() -> &'static str {
    if cfg!(debug_assertions) {
        "dev"
    } else {
        "release"
    }
}

fn is_overflow(msg: &str) -> bool {
    msg.contains("with overflow") || msg.contains("attempt to") && (msg.contains("overflow") || msg.contains("shift"))
}

/// `a` and `b` are compared between the two builds when the outcome is "ok"/"opened"; for every
/// other outcome they are free text (notes) and only the outcome class is compared
fn record(rep: &mut Report, id: &str, outcome: &str, a: &str, b: &str) {
    let compared = outcome == "ok" || outcome == "opened" || outcome == "refused";
    rep.records.push(jobj(&[
        ("id", jstr(id)),
        ("profile", jstr(profile())),
        ("outcome", jstr(outcome)),
        ("archive", jstr(if compared { a } else { "" })),
        ("extraction", jstr(if compared { b } else { "" })),
        ("note", jstr(if compared { "" } else { a })),
    ]));
}

fn overflow_violation(rep: &mut Report, args: &Args, id: &str, msg: &str, detail: String) {
    rep.violation(
        &format!("C18:overflow-panic:{}", msg.split(" at ").next().unwrap_or(msg).chars().take(60).collect::<String>()),
        jobj(&[
            ("what", jstr(&format!("overflow-panic: arithmetic overflow panic in the {} build: {}", profile(), vcommon::clip(msg, 400)))),
            ("workload", jstr("vh c18")),
            ("seed", args.seed.to_string()),
            ("case", jstr(id)),
            ("detail", detail),
        ]),
    );
}

fn extraction_digest(path: &str) -> Result<String, String> {
    match catch_unwind(AssertUnwindSafe(|| drive::extract_all(path))) {
        Ok(Ok(v)) => {
            let mut buf = Vec::new();
            for (s, cs) in v {
                buf.extend_from_slice(s.as_bytes());
                buf.push(0);
                for (n, d) in cs {
                    buf.extend_from_slice(n.as_bytes());
                    buf.push(0);
                    buf.extend_from_slice(&d);
                    buf.push(0xFE);
                }
            }
            Ok(drive::sha256_hex(&buf))
        }
        Ok(Err(e)) => Err(format!("ERR:{:#}", e)),
        Err(pn) => Err(format!("PANIC:{}", drive::panic_message(&pn))),
    }
}

/// Reader queries (lengths, ranges with starts and ends inside, at and beyond the contig end,
/// segment tables, group statistics, reference segments, unknown names) on one handle; the
/// outcomes are folded into one digest that the two builds must agree on. Err(msg) = a query
/// panicked with an arithmetic-overflow message.
fn reader_digest(path: &str, set: &gen::SampleSet, rng: &mut Rng) -> Result<String, String> {
    let mut d = match Decompressor::open(path, DecompressorConfig { verbosity: 0 }) {
        Ok(d) => d,
        Err(e) => return Ok(format!("open-error:{}", vcommon::clip(&format!("{:#}", e), 60))),
    };
    let mut acc: Vec<u8> = Vec::new();
    let mut overflow: Option<String> = None;
    let mut note = |acc: &mut Vec<u8>, overflow: &mut Option<String>, r: std::thread::Result<Result<Vec<u8>, ()>>| match r {
        Ok(Ok(v)) => {
            acc.extend_from_slice(b"ok:");
            acc.extend_from_slice(drive::sha256_hex(&v).as_bytes());
        }
        Ok(Err(())) => acc.extend_from_slice(b"err;"),
        Err(pn) => {
            let m = drive::panic_message(&pn);
            if is_overflow(&m) && overflow.is_none() {
                *overflow = Some(m.clone());
            }
            acc.extend_from_slice(b"panic;");
        }
    };
    for s in set.samples.iter().take(6) {
        for (cname, data) in s.contigs.iter().take(3) {
            if data.is_empty() {
                continue;
            }
            let l = data.len();
            let r = catch_unwind(AssertUnwindSafe(|| d.get_contig_length(&s.name, cname).map(|x| x.to_string().into_bytes()).map_err(|_| ())));
            note(&mut acc, &mut overflow, r);
            let pairs = [
                (0usize, l),
                (l / 2, l + 5),
                (l + 10, l + 20),
                (l, l + 1),
                (l + 1, l),
                (5, 3),
                (l.saturating_sub(1), l),
                (rng.usize(0, l), rng.usize(0, l + 3)),
                (0, usize::MAX),
                (l + 1000, usize::MAX),
            ];
            for (a, b) in pairs {
                let r = catch_unwind(AssertUnwindSafe(|| d.get_contig_range(&s.name, cname, a, b).map_err(|_| ())));
                note(&mut acc, &mut overflow, r);
            }
            let r = catch_unwind(AssertUnwindSafe(|| d.get_contig_segments_desc(&s.name, cname).map(|v| format!("{:?}", v).into_bytes()).map_err(|_| ())));
            note(&mut acc, &mut overflow, r);
        }
    }
    let r = catch_unwind(AssertUnwindSafe(|| d.get_contig_length("no such sample", "x").map(|x| x.to_string().into_bytes()).map_err(|_| ())));
    note(&mut acc, &mut overflow, r);
    let r = catch_unwind(AssertUnwindSafe(|| d.get_all_segments().map(|v| format!("{:?}", v).into_bytes()).map_err(|_| ())));
    note(&mut acc, &mut overflow, r);
    let r = catch_unwind(AssertUnwindSafe(|| {
        d.get_group_statistics()
            .map(|mut v| {
                v.sort();
                format!("{:?}", v).into_bytes()
            })
            .map_err(|_| ())
    }));
    note(&mut acc, &mut overflow, r);
    for g in [0u32, 15, 16, 17, 40, 1_000_000] {
        let r = catch_unwind(AssertUnwindSafe(|| d.get_reference_segment(g).map_err(|_| ())));
        note(&mut acc, &mut overflow, r);
    }
    match overflow {
        Some(m) => Err(m),
        None => Ok(drive::sha256_hex(&acc)),
    }
}

pub fn run(args: &Args, rep: &mut Report) {
    let thorough = args.tier_thorough;
    let scratch = args.get("scratch").unwrap_or("/tmp").to_string();
    let ragc = args.get("ragc").map(|s| s.to_string());
    let dir = format!("{}/pf-{}-{}-{}", scratch, profile(), std::process::id(), args.shard);
    std::fs::create_dir_all(&dir).unwrap();
    let only = args.case.clone();
    let want = |id: &str| only.as_ref().map(|o| o == id).unwrap_or(true);
    mon::install();
    // ---- slice A: library round trips from the C01 space (incl. k = 32, fallback > 0) ----
    let na = args.get_u64("na", if thorough { 500 } else { 48 });
    let nbig = args.get_u64("nbig", if thorough { 3 } else { 1 });
    for i in 0..na + nbig {
        let id = format!("A{}", i);
        if !args.mine(i) || !want(&id) {
            continue;
        }
        let (mut p, mut set, _) = p_roundtrip::case_inputs(args.seed ^ 0x18, i, false);
        if i % 4 == 1 {
            p.k = 32;
            p.fallback = 0.3;
        }
        if i >= na {
            // sizes the small cases never reach: a reference of more than a megabase and, in a
            // later sample, a novel contig of more than 1 MiB that ends up in one raw pack
            let mut rng = Rng::derive(args.seed, 0xC18A, i);
            p = gen::params(&mut rng, false);
            p.k = *rng.pick(&[17usize, 21, 31]);
            p.segment_size = *rng.pick(&[20_000usize, 60_000]);
            p.fallback = 0.0;
            p.single_file = false;
            p.capacity = 2 << 30;
            p.threads = 4;
            let l = rng.usize(1_100_000, 1_300_000);
            let base = gen::random_bases(&mut rng, l);
            let mut second = base.clone();
            for _ in 0..l / 400 {
                let at = rng.usize(0, l - 1);
                second[at] = rng.below(4) as u8;
            }
            let l = rng.usize(1_150_000, 1_400_000);
            let novel = gen::random_bases(&mut rng, l);
            set = gen::SampleSet {
                samples: vec![
                    gen::Sample { name: "B9#0".into(), contigs: vec![("B9#0#chr1".into(), base)] },
                    gen::Sample { name: "B10#0".into(), contigs: vec![("B10#0#chr1".into(), second), ("B10#0#novel".into(), novel)] },
                ],
                pansn: true,
            };
            rep.count(&format!("cases_with_a_raw_pack_of_more_than_1MiB_{}", profile()), 1);
        }
        let path = format!("{}/a{}.agc", dir, i);
        mon::set_case(i, jobj(&[("id", jstr(&id)), ("profile", jstr(profile())), ("params", p.json()), ("input", set.brief())]));
        rep.evaluations += 1;
        let r = catch_unwind(AssertUnwindSafe(|| drive::create(&path, &set, &p)));
        match r {
            Ok(Ok(())) => {
                let sha = drive::sha256_file(&path).unwrap_or_default();
                let mut qrng = Rng::derive(args.seed, 0xC18E, i);
                let queries = match catch_unwind(AssertUnwindSafe(|| reader_digest(&path, &set, &mut qrng))) {
                    Ok(Ok(dg)) => dg,
                    Ok(Err(m)) => {
                        overflow_violation(rep, args, &id, &m, p.json());
                        "overflow-panic".to_string()
                    }
                    Err(_) => "harness-panic".to_string(),
                };
                rep.count(&format!("cases_with_reader_queries_{}", profile()), 1);
                match extraction_digest(&path) {
                    Ok(x) => record(rep, &id, "ok", &sha, &format!("{}+{}", x, queries)),
                    Err(e) => {
                        if is_overflow(&e) {
                            overflow_violation(rep, args, &id, &e, p.json());
                        }
                        record(rep, &id, "extract-failed", &sha, &vcommon::clip(&e, 200));
                    }
                }
                rep.nontrivial(set.digest() ^ i);
            }
            Ok(Err(e)) => record(rep, &id, "create-error", &vcommon::clip(&format!("{:#}", e), 200), ""),
            Err(pn) => {
                let m = drive::panic_message(&pn);
                if is_overflow(&m) {
                    overflow_violation(rep, args, &id, &m, p.json());
                }
                record(rep, &id, "create-panic", &vcommon::clip(&m, 200), "");
            }
        }
        let _ = std::fs::remove_file(&path);
    }
    // ---- slice B: single-file mode with more contigs than the pack cardinality ----
    let nb = args.get_u64("nb", if thorough { 200 } else { 16 });
    for i in 0..nb {
        let id = format!("B{}", i);
        if !args.mine(i) || !want(&id) {
            continue;
        }
        let (mut p, set) = p_determinism::class_inputs(args.seed ^ 0x18, 2 * i); // even = single file
        let mut rng = Rng::derive(args.seed, 0xC18B, i);
        p.threads = rng.usize(1, 8);
        let path = format!("{}/b{}.agc", dir, i);
        mon::set_case(i, jobj(&[("id", jstr(&id)), ("profile", jstr(profile())), ("params", p.json()), ("input", set.brief())]));
        rep.evaluations += 1;
        match catch_unwind(AssertUnwindSafe(|| drive::create(&path, &set, &p))) {
            Ok(Ok(())) => {
                let sha = drive::sha256_file(&path).unwrap_or_default();
                let x = extraction_digest(&path).unwrap_or_else(|e| e);
                record(rep, &id, "ok", &sha, &x);
                rep.nontrivial(set.digest() ^ 0xB000 ^ i);
            }
            Ok(Err(e)) => record(rep, &id, "create-error", &vcommon::clip(&format!("{:#}", e), 200), ""),
            Err(pn) => {
                let m = drive::panic_message(&pn);
                if is_overflow(&m) {
                    overflow_violation(rep, args, &id, &m, p.json());
                }
                record(rep, &id, "create-panic", &vcommon::clip(&m, 200), "");
            }
        }
        let _ = std::fs::remove_file(&path);
    }
    // ---- slice C: prefixes of an archive (C14 space): outcome of open ----
    let nc = args.get_u64("nc", if thorough { 8 } else { 3 });
    for w in 0..nc {
        if !args.mine(w) {
            continue;
        }
        let (p, set) = p_trunc::archive_inputs(args.seed ^ 0x18, w);
        let path = format!("{}/c{}.agc", dir, w);
        if !matches!(catch_unwind(AssertUnwindSafe(|| drive::create(&path, &set, &p))), Ok(Ok(()))) {
            continue;
        }
        let full = std::fs::read(&path).unwrap_or_default();
        let mut rng = Rng::derive(args.seed, 0xC18C, w);
        let work = format!("{}/cw{}.agc", dir, w);
        let nprefix = if thorough { 400 } else { 60 };
        for j in 0..nprefix {
            let n = match j % 4 {
                0 => full.len() - 1 - rng.usize(0, 30.min(full.len() - 1)),
                1 => rng.usize(0, 12),
                _ => rng.usize(0, full.len() - 1),
            };
            let id = format!("C{}:{}", w, n);
            if !want(&id) {
                continue;
            }
            std::fs::write(&work, &full[..n]).unwrap();
            rep.evaluations += 1;
            let r = catch_unwind(AssertUnwindSafe(|| Decompressor::open(&work, DecompressorConfig { verbosity: 0 }).map(|d| d.list_samples().len())));
            match r {
                Ok(Ok(k)) => record(rep, &id, "opened", &k.to_string(), ""),
                Ok(Err(_)) => record(rep, &id, "refused", "", ""),
                Err(pn) => {
                    let m = drive::panic_message(&pn);
                    if is_overflow(&m) {
                        overflow_violation(rep, args, &id, &m, jobj(&[("prefix_length", n.to_string()), ("archive_length", full.len().to_string())]));
                    }
                    record(rep, &id, "panic", &vcommon::clip(&m, 120), "");
                }
            }
        }
        let _ = std::fs::remove_file(&work);
        let _ = std::fs::remove_file(&path);
    }
    // ---- slice D: the real binary of the matching profile on files ----
    if let Some(ragc) = &ragc {
        let nd = args.get_u64("nd", if thorough { 200 } else { 16 });
        for i in 0..nd {
            let id = format!("D{}", i);
            if !args.mine(i) || !want(&id) {
                continue;
            }
            let mut rng = Rng::derive(args.seed, 0xC18D, i);
            let mut p = gen::params(&mut rng, true);
            if i % 3 == 0 {
                p.single_file = true;
                p.pack = *rng.pick(&[2usize, 3, 5]);
            }
            if i % 5 == 1 {
                p.k = 32;
                p.fallback = 0.05;
            }
            let shape = Shape { max_samples: 5, max_contigs: 5, max_contig_len: 3000, iupac: true, allow_many_samples: false };
            let mut set = gen::sample_set(&mut rng, &p, &shape);
            for (j, s) in set.samples.iter_mut().enumerate() {
                let sn = format!("F{:02}#{}", j, j % 2);
                for (cj, c) in s.contigs.iter_mut().enumerate() {
                    c.0 = format!("{}#c{}", sn, cj);
                }
                s.name = sn;
            }
            set.pansn = true;
            let idir = format!("{}/d{}", dir, i);
            std::fs::create_dir_all(&idir).unwrap();
            let mut pr = Presentation::plain();
            pr.single_file = p.single_file;
            let (inputs, _) = cli::write_inputs(&idir, &set, &pr, &mut rng, "");
            let arch = format!("{}/a.agc", idir);
            let o = cli::run(&mut cli::create_cmd(ragc, &arch, &inputs, &p), cli::TIMEOUT);
            rep.evaluations += 1;
            if o.timed_out {
                rep.inconclusive(format!("case {}: create hit the wall-clock watchdog ({})", id, profile()));
            } else if o.ok() {
                let sha = drive::sha256_file(&arch).unwrap_or_default();
                let x = extraction_digest(&arch).unwrap_or_else(|e| e);
                record(rep, &id, "ok", &sha, &x);
                rep.nontrivial(set.digest() ^ 0xD000 ^ i);
            } else {
                let s = String::from_utf8_lossy(&o.stderr).to_string();
                if let Some(line) = s.lines().find(|l| is_overflow(l)) {
                    overflow_violation(rep, args, &id, line, p.json());
                }
                record(rep, &id, &format!("create-exit-{:?}", o.code), &vcommon::clip(&o.stderr_tail(), 200), "");
            }
            let _ = std::fs::remove_dir_all(&idir);
        }
    }
    for (k, v) in mon::path_counters() {
        if k.starts_with("site_") {
            rep.count(&format!("{}_{}", k, profile()), v);
        }
    }
    rep.count(&format!("cases_{}", profile()), rep.records.len() as u64);
    let _ = std::fs::remove_dir_all(&dir);
}
