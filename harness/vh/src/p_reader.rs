//! C08: reader answers do not depend on query history or on other readers; unknown names give
//! an error value, never a crash.

use crate::cli;
use crate::drive;
use crate::gen::{self, Params, SampleSet, Shape};
use ragc_core::Decompressor;
use std::collections::{BTreeMap, HashMap, HashSet};
use std::panic::{catch_unwind, AssertUnwindSafe};
use vcommon::{fnv, fnv_mix, jarr, jobj, jstr, Args, Report, Rng};

#[derive(Clone, Debug, PartialEq, Eq, Hash)]
enum Op {
    ListSamples,
    ListPrefix(String),
    ListContigs(String),
    GetSample(String),
    GetContig(String, String),
    GetRange(String, String, usize, usize),
    GetLength(String, String),
    SegDesc(String, String),
    AllSegments,
    GroupStats,
    RefSegment(u32),
    ByPrefix(String),
    CompressionStats,
    CloneThenList,
}

#[derive(Clone, Debug, PartialEq, Eq)]
enum Res {
    Ok(u64), // digest of the payload
    Err,
    Panic(String),
}

fn dig<T: std::fmt::Debug>(t: &T) -> u64 {
    fnv(format!("{:?}", t).as_bytes())
}

fn apply(d: &mut Decompressor, op: &Op) -> Res {
    let r = catch_unwind(AssertUnwindSafe(|| -> Result<u64, ()> {
        Ok(match op {
            Op::ListSamples => dig(&d.list_samples()),
            Op::ListPrefix(p) => dig(&d.list_samples_with_prefix(p)),
            Op::ListContigs(s) => dig(&d.list_contigs(s).map_err(|_| ())?),
            Op::GetSample(s) => dig(&d.get_sample(s).map_err(|_| ())?),
            Op::GetContig(s, c) => dig(&d.get_contig(s, c).map_err(|_| ())?),
            Op::GetRange(s, c, a, b) => dig(&d.get_contig_range(s, c, *a, *b).map_err(|_| ())?),
            Op::GetLength(s, c) => dig(&d.get_contig_length(s, c).map_err(|_| ())?),
            Op::SegDesc(s, c) => dig(&d.get_contig_segments_desc(s, c).map_err(|_| ())?),
            Op::AllSegments => dig(&d.get_all_segments().map_err(|_| ())?),
            Op::GroupStats => dig(&d.get_group_statistics().map_err(|_| ())?),
            Op::RefSegment(g) => dig(&d.get_reference_segment(*g).map_err(|_| ())?),
            Op::ByPrefix(p) => {
                // a map: compare as a sorted list
                let m = d.get_samples_by_prefix(p).map_err(|_| ())?;
                let b: BTreeMap<_, _> = m.into_iter().collect();
                dig(&b)
            }
            Op::CompressionStats => dig(&d.get_compression_stats()),
            Op::CloneThenList => {
                let mut c = d.clone_for_thread().map_err(|_| ())?;
                let s = c.list_samples();
                let first = s.first().cloned().unwrap_or_default();
                dig(&(s, c.list_contigs(&first).map_err(|_| ())?))
            }
        })
    }));
    match r {
        Ok(Ok(v)) => Res::Ok(v),
        Ok(Err(())) => Res::Err,
        Err(pn) => Res::Panic(drive::panic_message(&pn)),
    }
}

struct Fixture {
    raw_ref_ops: usize,
    packed_ref_ops: usize,
    path: String,
    ops: Vec<Op>,
    /// the first n_enum operations take part in the exhaustive enumeration; the rest (hostile
    /// unknown names) only in random and concurrent histories and on a fresh handle
    n_enum: usize,
    truth: HashMap<Op, Res>,
    p: Params,
    set: SampleSet,
}

fn make_fixture(dir: &str, seed: u64, which: u64, many: bool) -> Result<Fixture, String> {
    // a fixture is only useful if it has LZ groups, one of them with a raw-stored reference
    let mut last = Err("no attempt".to_string());
    for attempt in 0..30 {
        last = make_fixture_once(dir, seed, which, many, attempt);
        match &last {
            Ok(fx) if fx.raw_ref_ops > 0 && fx.packed_ref_ops > 0 => return last,
            Ok(fx) => {
                let _ = std::fs::remove_file(&fx.path);
            }
            Err(_) => {}
        }
    }
    last
}

fn make_fixture_once(dir: &str, seed: u64, which: u64, many: bool, attempt: u64) -> Result<Fixture, String> {
    let mut rng = Rng::derive(seed, 0xC08 + 0x1000 * attempt, which);
    let mut p = gen::params(&mut rng, true);
    p.threads = 2;
    p.segment_size = *rng.pick(&[50usize, 80, 120]);
    let shape = Shape { max_samples: if many { 130 } else { 4 }, max_contigs: 3, max_contig_len: 1500, iupac: true, allow_many_samples: false };
    let mut set = gen::sample_set(&mut rng, &p, &shape);
    if many {
        // three metadata batches: replicate samples until there are 120..130
        let base = set.samples.clone();
        let target = rng.usize(110, 130);
        let mut i = 0;
        while set.samples.len() < target {
            let mut s = base[i % base.len()].clone();
            let sn = format!("M{:03}#{}", set.samples.len(), i % 2);
            for (j, c) in s.contigs.iter_mut().enumerate() {
                c.0 = format!("{}#c{}", sn, j);
                if !c.1.is_empty() {
                    let l = c.1.len();
                    c.1[i % l] = (c.1[i % l] + 1) % 4;
                }
                c.1.truncate(400);
            }
            s.name = sn;
            set.samples.push(s);
            i += 1;
        }
    }
    // a sample whose only contig is the reverse complement of the first sample's first contig:
    // ragc stores it as the same segments with the orientation flag flipped, so queries through
    // the two contigs reach the same stored segment in opposite orientations
    let inv_name = if set.pansn { "ZINV#0".to_string() } else { "zinv".to_string() };
    let inv_contig = if set.pansn { "ZINV#0#rc0".to_string() } else { "rc0 inverted copy".to_string() };
    if !set.samples[0].contigs[0].1.is_empty() {
        let rc = gen::revcomp(&set.samples[0].contigs[0].1);
        set.samples.push(gen::Sample { name: inv_name.clone(), contigs: vec![(inv_contig.clone(), rc)] });
    }
    let path = format!("{}/fx{}.agc", dir, which);
    match catch_unwind(AssertUnwindSafe(|| drive::create(&path, &set, &p))) {
        Ok(Ok(())) => {}
        Ok(Err(e)) => return Err(format!("create failed: {:#}", e)),
        Err(pn) => return Err(format!("create panicked: {}", drive::panic_message(&pn))),
    }
    let first = set.samples[0].name.clone();
    let last = set.samples.last().unwrap().name.clone();
    let mid = set.samples[set.samples.len() / 2].name.clone();
    let fc = set.samples[0].contigs[0].0.clone();
    let lc = set.samples.last().unwrap().contigs[0].0.clone();
    let flen = set.samples[0].contigs[0].1.len();
    // group ids: take them from a fresh handle
    let mut d = drive::open(&path).map_err(|e| format!("open failed: {:#}", e))?;
    let segs = d.get_all_segments().map_err(|e| format!("get_all_segments failed: {:#}", e))?;
    let mut lz_groups: Vec<u32> = segs.iter().flat_map(|(_, _, v)| v.iter().map(|s| s.group_id)).filter(|g| *g >= 16).collect();
    lz_groups.sort();
    lz_groups.dedup();
    let prefix: String = first.chars().take(2).collect();
    let mut ops = vec![
        Op::ListSamples,
        Op::ListPrefix(prefix.clone()),
        Op::ListPrefix("zz-no-such".into()),
        Op::ListContigs(first.clone()),
        Op::ListContigs(last.clone()),
        Op::ListContigs("nosuch".into()),
        Op::GetSample(first.clone()),
        Op::GetSample(last.clone()),
        Op::GetSample("nosuch".into()),
        Op::GetContig(first.clone(), fc.clone()),
        Op::GetContig(last.clone(), lc.clone()),
        Op::GetContig(first.clone(), "no such contig".into()),
        Op::GetContig("nosuch".into(), fc.clone()),
        Op::GetRange(first.clone(), fc.clone(), flen / 3, flen.saturating_sub(1).max(1)),
        Op::GetRange("nosuch".into(), fc.clone(), 0, 10),
        Op::GetLength(last.clone(), lc.clone()),
        Op::GetLength(first.clone(), "no such contig".into()),
        Op::SegDesc(mid.clone(), set.samples[set.samples.len() / 2].contigs[0].0.clone()),
        Op::AllSegments,
        Op::GroupStats,
        Op::RefSegment(999_999),
        Op::ByPrefix(if many { "M00".into() } else { prefix }),
        Op::CompressionStats,
        Op::CloneThenList,
    ];
    // ranges through other contigs, among them the inverted copy at the mirrored coordinates
    // (the same stored segments, opposite orientation), and a second range on the first contig
    {
        let (a, b) = (flen / 3, flen.saturating_sub(1).max(1));
        if set.samples.iter().any(|s| s.name == inv_name) {
            ops.push(Op::GetRange(inv_name.clone(), inv_contig.clone(), flen.saturating_sub(b), flen.saturating_sub(a)));
            ops.push(Op::GetRange(inv_name.clone(), inv_contig.clone(), 0, flen / 2 + 1));
            ops.push(Op::GetContig(inv_name.clone(), inv_contig.clone()));
            ops.push(Op::GetLength(inv_name.clone(), inv_contig.clone()));
        }
        ops.push(Op::GetRange(first.clone(), fc.clone(), 0, flen / 2 + 1));
        let llen = set.samples.last().unwrap().contigs[0].1.len();
        ops.push(Op::GetRange(last.clone(), lc.clone(), llen / 4, llen));
        // the sample with the most contigs (its last one) and unknown contigs in the sample with
        // the fewest: lookups that remember a position must not carry it across samples
        let big = set.samples.iter().max_by_key(|s| s.contigs.len()).unwrap();
        let small = set.samples.iter().min_by_key(|s| s.contigs.len()).unwrap();
        let (bn, bc) = (big.name.clone(), big.contigs.last().unwrap().0.clone());
        ops.push(Op::GetContig(bn.clone(), bc.clone()));
        ops.push(Op::GetLength(bn, bc));
        ops.push(Op::GetLength(small.name.clone(), "no such contig".into()));
        ops.push(Op::GetContig(small.name.clone(), "no such contig".into()));
        ops.push(Op::GetRange(small.name.clone(), "no such contig".into(), 0, 7));
    }
    // reference segments: a few groups whose reference part is stored raw (metadata 0) and a
    // few whose reference is compressed - looked up through the container API
    let (mut raw_ref_ops, mut packed_ref_ops) = (0usize, 0usize);
    {
        let mut a = ragc_common::Archive::new_reader();
        a.open(&path).map_err(|e| format!("archive open failed: {:#}", e))?;
        let (mut raw, mut packed) = (Vec::new(), Vec::new());
        for g in &lz_groups {
            if let Some(id) = a.get_stream_id(&ragc_common::stream_ref_name(3000, *g)) {
                if let Ok((_, meta)) = a.get_part_by_id(id, 0) {
                    if meta == 0 {
                        raw.push(*g);
                    } else {
                        packed.push(*g);
                    }
                }
            }
        }
        for g in raw.iter().take(2).chain(raw.iter().rev().take(1)).chain(packed.iter().take(1)).chain(packed.iter().rev().take(1)) {
            ops.push(Op::RefSegment(*g));
        }
        raw_ref_ops = raw.len().min(3);
        packed_ref_ops = packed.len().min(2);
    }
    let mut seen = HashSet::new();
    ops.retain(|o| seen.insert(o.clone()));
    let n_enum = ops.len();
    // unknown names of unusual shape: empty, very long, non-ASCII (multi-byte characters across
    // any byte position an implementation might cut at), control characters, a known name in
    // another case or with a suffix
    let wide = "\u{65e5}\u{672c}".repeat(40);
    let hostile: Vec<String> = vec![
        String::new(),
        "x".repeat(300),
        wide.clone(),
        format!("a{}", wide),
        format!("{}\u{e9}", "n".repeat(63)),
        "no\0such".to_string(),
        "no\nsuch\tname".to_string(),
        format!("{} ", first),
        first.to_lowercase() + "~",
        "\u{1f9ec}".to_string(),
    ];
    for (hi, hname) in hostile.iter().enumerate() {
        match hi % 5 {
            0 => ops.push(Op::GetSample(hname.clone())),
            1 => ops.push(Op::GetContig(first.clone(), hname.clone())),
            2 => ops.push(Op::GetLength(hname.clone(), fc.clone())),
            3 => ops.push(Op::GetRange(first.clone(), hname.clone(), 0, 5)),
            _ => ops.push(Op::ListContigs(hname.clone())),
        }
        if hi % 2 == 0 {
            ops.push(Op::GetContig(hname.clone(), hname.clone()));
            ops.push(Op::ListPrefix(hname.clone()));
        } else {
            ops.push(Op::SegDesc(hname.clone(), fc.clone()));
            ops.push(Op::ByPrefix(hname.clone()));
        }
    }
    let mut seen = HashSet::new();
    ops.retain(|o| seen.insert(o.clone()));
    // ground truth: every op on its own fresh handle
    let mut truth = HashMap::new();
    for op in &ops {
        let mut d = drive::open(&path).map_err(|e| format!("open failed: {:#}", e))?;
        truth.insert(op.clone(), apply(&mut d, op));
    }
    Ok(Fixture { raw_ref_ops, packed_ref_ops, path, ops, n_enum, truth, p, set })
}

fn history_json(h: &[&Op]) -> String {
    jarr(&h.iter().map(|o| jstr(&format!("{:?}", o))).collect::<Vec<_>>())
}

/// Run a history on one handle; Err((position, op, got, want)) at the first deviation
fn run_history(fx: &Fixture, hist: &[&Op], states: &mut HashSet<u64>) -> Result<(), (usize, String)> {
    let mut d = match drive::open(&fx.path) {
        Ok(d) => d,
        Err(e) => return Err((0, format!("error: open failed: {:#}", e))),
    };
    let mut state = 0u64; // digest of the ops applied so far = a proxy for the handle state
    for (i, op) in hist.iter().enumerate() {
        states.insert(fnv_mix(state, dig(op)));
        let got = apply(&mut d, op);
        let want = fx.truth.get(*op).unwrap();
        if let Res::Panic(m) = &got {
            return Err((i, format!("panic: {:?} panicked after {} earlier operations: {}", op, i, m)));
        }
        if got != *want {
            return Err((i, format!("history: {:?} gave {:?} after {} earlier operations but {:?} on a fresh handle", op, got, i, want)));
        }
        state = fnv_mix(state, dig(op));
    }
    Ok(())
}

pub fn run(args: &Args, rep: &mut Report) {
    let thorough = args.tier_thorough;
    let scratch = args.get("scratch").unwrap_or("/tmp").to_string();
    let ragc = args.get("ragc").map(|s| s.to_string());
    let dir = format!("{}/rd-{}-{}", scratch, std::process::id(), args.shard);
    std::fs::create_dir_all(&dir).unwrap();
    let mut states: HashSet<u64> = HashSet::new();
    // fixtures: one small (single metadata batch) and one with three batches; every shard builds
    // both (cheap) and takes its share of the histories
    let nfix = args.get_u64("fixtures", if thorough { 4 } else { 2 });
    for f in 0..nfix {
        let many = f % 2 == 1;
        let fx = match make_fixture(&dir, args.seed, f, many) {
            Ok(fx) => fx,
            Err(e) => {
                rep.inconclusive(format!("fixture {}: {}", f, e));
                continue;
            }
        };
        // a panic on a fresh handle is already a violation ("unknown names yield an error value")
        for (op, r) in &fx.truth {
            if let Res::Panic(m) = r {
                if args.shard == 0 {
                    report(rep, args, &fx, f, &[op], &format!("panic: {:?} panicked on a fresh handle: {}", op, m));
                }
            }
        }
        let nops = fx.n_enum;
        let nops_all = fx.ops.len();
        if args.shard == 0 {
            rep.count("operations_with_hostile_unknown_names", (nops_all - nops) as u64);
            rep.count("fixtures_with_raw_stored_reference_ops", (fx.raw_ref_ops > 0) as u64);
            rep.count("fixtures_with_compressed_reference_ops", (fx.packed_ref_ops > 0) as u64);
        }
        let mut idx = 0u64;
        let mut fail = 0;
        // all histories of length 1..=L
        let maxlen = if many || !thorough { 2 } else { 3 };
        let mut stack: Vec<usize> = Vec::new();
        fn rec(fx: &Fixture, stack: &mut Vec<usize>, maxlen: usize, nops: usize, idx: &mut u64, args: &Args, rep: &mut Report, states: &mut HashSet<u64>, f: u64, fail: &mut u32) {
            if !stack.is_empty() {
                *idx += 1;
                if args.mine(*idx) && *fail < 5 {
                    let h: Vec<&Op> = stack.iter().map(|&i| &fx.ops[i]).collect();
                    rep.evaluations += 1;
                    rep.count("histories_enumerated", 1);
                    if let Err((_, w)) = run_history(fx, &h, states) {
                        *fail += 1;
                        report(rep, args, fx, f, &h, &w);
                    }
                }
            }
            if stack.len() == maxlen {
                return;
            }
            for i in 0..nops {
                stack.push(i);
                rec(fx, stack, maxlen, nops, idx, args, rep, states, f, fail);
                stack.pop();
            }
        }
        rec(&fx, &mut stack, maxlen, nops, &mut idx, args, rep, &mut states, f, &mut fail);
        // random longer histories (length 3..40), incl. length 3 and 4 where not enumerated
        let nrand = args.get_u64("n", if thorough { 3000 } else { 300 });
        for i in 0..nrand {
            if !args.mine(i) || fail >= 5 {
                continue;
            }
            let mut rng = Rng::derive(args.seed, 0xC08A + f, i);
            let l = if rng.chance(1, 2) { rng.usize(3, 4) } else { rng.usize(5, 40) };
            let h: Vec<&Op> = (0..l).map(|_| &fx.ops[rng.usize(0, nops_all - 1)]).collect();
            rep.evaluations += 1;
            rep.count("histories_random", 1);
            if let Err((_, w)) = run_history(&fx, &h, &mut states) {
                fail += 1;
                report(rep, args, &fx, f, &h, &w);
            }
        }
        // concurrent cloned readers
        let nconc = if thorough { 40 } else { 6 };
        for c in 0..nconc {
            if !args.mine(c) || fail >= 5 {
                continue;
            }
            let mut rng = Rng::derive(args.seed, 0xC08B + f, c);
            let nthreads = rng.usize(2, 8);
            let hists: Vec<Vec<usize>> = (0..nthreads).map(|_| (0..rng.usize(3, 20)).map(|_| rng.usize(0, nops_all - 1)).collect()).collect();
            let base = match drive::open(&fx.path) {
                Ok(d) => d,
                Err(_) => continue,
            };
            let results: Vec<Option<String>> = std::thread::scope(|sc| {
                let mut hs = Vec::new();
                for h in &hists {
                    let clone = base.clone_for_thread();
                    let fxr = &fx;
                    hs.push(std::thread::Builder::new().name("vh-reader".into()).spawn_scoped(sc, move || -> Option<String> {
                        let mut d = match clone {
                            Ok(d) => d,
                            Err(e) => return Some(format!("error: clone_for_thread failed: {:#}", e)),
                        };
                        for (i, &oi) in h.iter().enumerate() {
                            let op = &fxr.ops[oi];
                            let got = apply(&mut d, op);
                            let want = fxr.truth.get(op).unwrap();
                            if got != *want {
                                return Some(format!("concurrent: {:?} gave {:?} on a cloned handle (position {}, concurrent readers) but {:?} on a fresh handle", op, got, i, want));
                            }
                        }
                        None
                    }).expect("spawn reader"));
                }
                hs.into_iter().map(|h| h.join().unwrap_or(Some("panic: reader thread panicked".into()))).collect()
            });
            rep.evaluations += 1;
            rep.count("concurrent_reader_groups", 1);
            rep.max("max_concurrent_readers", nthreads as u64);
            for (t, r) in results.iter().enumerate() {
                if let Some(w) = r {
                    fail += 1;
                    let h: Vec<&Op> = hists[t].iter().map(|&i| &fx.ops[i]).collect();
                    report(rep, args, &fx, f, &h, w);
                    break;
                }
            }
        }
        // CLI slice (shard 0 only): commands that load the metadata more than once
        if let (Some(ragc), true) = (&ragc, args.shard == 0) {
            let first = fx.set.samples[0].name.clone();
            let last = fx.set.samples.last().unwrap().name.clone();
            let runs: Vec<(Vec<String>, bool)> = vec![
                (vec!["getset".into(), fx.path.clone(), first.clone(), last.clone()], true),
                (vec!["getset".into(), fx.path.clone(), first.clone(), "nosuch".into()], false),
                (vec!["getset".into(), fx.path.clone(), "nosuch".into(), first.clone()], false),
                (vec!["listctg".into(), fx.path.clone(), first.clone(), last.clone()], true),
                (vec!["listctg".into(), fx.path.clone(), "nosuch".into()], false),
                (vec!["inspect".into(), fx.path.clone(), "-s".into()], true),
                (vec!["inspect".into(), fx.path.clone(), "--segment-layout".into()], true),
                (vec!["ctglen".into(), fx.path.clone(), "-s".into(), "nosuch".into(), "-c".into(), "x".into()], false),
                (vec!["getset".into(), fx.path.clone(), "\u{65e5}\u{672c}".repeat(40)], false),
                (vec!["listctg".into(), fx.path.clone(), format!("{}\u{e9}", "n".repeat(63))], false),
                (vec!["ctglen".into(), fx.path.clone(), "-s".into(), first.clone(), "-c".into(), format!("a{}", "\u{65e5}".repeat(40))], false),
            ];
            for (argv, should_succeed) in runs {
                let o = cli::run(std::process::Command::new(ragc).args(&argv), cli::TIMEOUT);
                rep.evaluations += 1;
                rep.count("cli_invocations", 1);
                if o.timed_out {
                    rep.inconclusive(format!("`ragc {}` hit the wall-clock watchdog", argv.join(" ")));
                    continue;
                }
                if o.panicked() || o.code.is_none() {
                    report(rep, args, &fx, f, &[], &format!("panic: `ragc {}` crashed (exit {:?}): {}", argv[..1].join(" "), o.code, o.stderr_tail()));
                } else if should_succeed && !o.ok() {
                    report(rep, args, &fx, f, &[], &format!("history: `ragc {}` failed (exit {:?}) although every named sample exists: {}", argv[..1].join(" "), o.code, o.stderr_tail()));
                }
            }
        }
        if rep.samples.len() < 2 {
            let h: Vec<&Op> = fx.ops.iter().take(6).collect();
            rep.sample(jobj(&[("fixture", f.to_string()), ("samples_in_archive", fx.set.samples.len().to_string()), ("operation_alphabet_size", nops.to_string()), ("some_operations", history_json(&h))]));
        }
        let _ = std::fs::remove_file(&fx.path);
    }
    for s in &states {
        rep.nontrivial(*s);
    }
    rep.count("distinct_op_after_history_pairs", states.len() as u64);
    let _ = std::fs::remove_dir_all(&dir);
}

fn report(rep: &mut Report, args: &Args, fx: &Fixture, f: u64, h: &[&Op], w: &str) {
    // signature: kind + operation name (without arguments)
    let opname = w.split('{').next().unwrap_or("").split('(').next().unwrap_or("").to_string();
    let kind = w.split(':').next().unwrap_or("");
    let op_kind: String = opname.split(": ").nth(1).unwrap_or("").split_whitespace().next().unwrap_or("").chars().filter(|c| c.is_alphanumeric() || *c == '`').collect();
    rep.violation(
        &format!("C08:{}:{}", kind, op_kind),
        jobj(&[
            ("what", jstr(&vcommon::clip(w, 1200))),
            ("workload", jstr("vh c08")),
            ("seed", args.seed.to_string()),
            ("fixture", f.to_string()),
            ("tier_thorough", args.tier_thorough.to_string()),
            ("history", history_json(h)),
            ("params", fx.p.json()),
            ("input", fx.set.brief()),
        ]),
    );
}
