//! Library driver: reproduces what `ragc create` does (ragc-cli/src/main.rs) step by step with
//! in-memory inputs, and the extraction / comparison helpers used by several properties.

use crate::gen::{Params, SampleSet};
use anyhow::Result;
use ragc_core::{determine_splitters, Decompressor, DecompressorConfig, StreamingQueueCompressor, StreamingQueueConfig};
use sha2::{Digest, Sha256};

pub fn config(p: &Params) -> StreamingQueueConfig {
    StreamingQueueConfig {
        k: p.k,
        segment_size: p.segment_size,
        min_match_len: p.min_match,
        pack_size: p.pack,
        queue_capacity: p.capacity,
        num_threads: p.threads,
        verbosity: 0,
        adaptive_mode: false,
        fallback_frac: p.fallback,
        concatenated_genomes: p.single_file,
        compression_level: p.level,
        ..StreamingQueueConfig::default()
    }
}

/// Hooks for callers that want to interleave their own actions (C05 uses `extra_sync`)
#[derive(Default, Clone)]
pub struct DriveOpts {
    /// after how many pushed contigs (global count) to call sync_and_flush explicitly
    /// (0 = before the first push: a round in which no worker has anything to contribute)
    pub extra_sync_after: Vec<usize>,
    /// start with an empty splitter set (what a reference without any singleton k-mer gives)
    pub empty_splitters: bool,
}

/// Splitter set to use for the next create on this thread instead of the one determined from
/// the reference (taken, i.e. used once). Lets a case plant splitter k-mers of a chosen shape.
thread_local! {
    pub static PLANTED_SPLITTERS: std::cell::RefCell<Option<Vec<u64>>> = const { std::cell::RefCell::new(None) };
}

/// Canonical value of the k-mer spelled by `bases` (codes 0..3), in ragc's own representation
pub fn canonical_kmer_value(bases: &[u8]) -> u64 {
    let mut km = ragc_core::kmer::Kmer::new(bases.len() as u32, ragc_core::kmer::KmerMode::Canonical);
    for &b in bases {
        km.insert(b as u64);
    }
    km.data()
}

pub fn create(path: &str, set: &SampleSet, p: &Params) -> Result<()> {
    create_with(path, set, p, &DriveOpts::default())
}

pub fn create_with(path: &str, set: &SampleSet, p: &Params, opts: &DriveOpts) -> Result<()> {
    create_logged(path, set, p, opts).0
}

/// Like `create_with`, under the guard (event log on, stuck-state detector armed); also returns
/// the hook events of the run
pub fn create_logged(path: &str, set: &SampleSet, p: &Params, opts: &DriveOpts) -> (Result<()>, Vec<crate::mon::Ev>) {
    let planted = PLANTED_SPLITTERS.with(|c| c.borrow_mut().take());
    crate::mon::run_guarded(p.threads, || create_unguarded(path, set, p, opts, planted))
}

fn create_unguarded(path: &str, set: &SampleSet, p: &Params, opts: &DriveOpts, planted: Option<Vec<u64>>) -> Result<()> {
    // splitters come from the first input file (multi-file) or the first sample (single file);
    // with one sample per file these are the same contigs
    let ref_contigs: Vec<Vec<u8>> = set.samples[0].contigs.iter().map(|c| c.1.clone()).collect();
    let (mut splitters, _, _) = determine_splitters(&ref_contigs, p.k, p.segment_size);
    if opts.empty_splitters {
        splitters.clear();
    }
    if let Some(pl) = planted {
        splitters.clear();
        splitters.extend(pl);
    }
    let mut c = StreamingQueueCompressor::with_splitters(path, config(p), splitters)?;
    let mut pushed = 0usize;
    if opts.extra_sync_after.contains(&0) {
        c.drain()?;
        c.sync_and_flush("EARLY")?;
    }
    let mut after_push = |c: &StreamingQueueCompressor, pushed: &mut usize| -> Result<()> {
        *pushed += 1;
        if opts.extra_sync_after.contains(pushed) {
            c.sync_and_flush("EXTRA")?;
        }
        Ok(())
    };
    if p.single_file {
        let mut reference_done = false;
        for (i, s) in set.samples.iter().enumerate() {
            if i > 0 && !reference_done {
                c.drain()?;
                reference_done = true;
            }
            for (name, data) in &s.contigs {
                if data.is_empty() {
                    continue;
                }
                c.push(s.name.clone(), name.clone(), data.clone())?;
                after_push(&c, &mut pushed)?;
            }
        }
    } else {
        for (name, data) in &set.samples[0].contigs {
            if !data.is_empty() {
                c.push(set.samples[0].name.clone(), name.clone(), data.clone())?;
                after_push(&c, &mut pushed)?;
            }
        }
        c.drain()?;
        c.sync_and_flush("AAA#0_REF")?;
        for s in &set.samples[1..] {
            for (name, data) in &s.contigs {
                if !data.is_empty() {
                    c.push(s.name.clone(), name.clone(), data.clone())?;
                    after_push(&c, &mut pushed)?;
                }
            }
        }
    }
    c.finalize()
}

pub fn open(path: &str) -> Result<Decompressor> {
    Decompressor::open(path, DecompressorConfig { verbosity: 0 })
}

/// Everything the archive holds, through ragc's own reader on a fresh handle
pub fn extract_all(path: &str) -> Result<Vec<(String, Vec<(String, Vec<u8>)>)>> {
    let mut d = open(path)?;
    let mut out = Vec::new();
    for s in d.list_samples() {
        let contigs = d.get_sample(&s)?;
        out.push((s, contigs));
    }
    Ok(out)
}

/// First difference between what was put in and what came out; None = identical
pub fn compare(set: &SampleSet, got: &[(String, Vec<(String, Vec<u8>)>)]) -> Option<String> {
    if got.len() != set.samples.len() {
        return Some(format!("samples: {} samples in, {} listed", set.samples.len(), got.len()));
    }
    for (s, g) in set.samples.iter().zip(got.iter()) {
        if s.name != g.0 {
            return Some(format!("samples: sample name/order differs: {:?} in, {:?} listed", s.name, g.0));
        }
        let want: Vec<&(String, Vec<u8>)> = s.contigs.iter().filter(|c| !c.1.is_empty()).collect();
        if want.len() != g.1.len() {
            return Some(format!("contigs: sample {:?}: {} contigs in, {} out", s.name, want.len(), g.1.len()));
        }
        for (w, o) in want.iter().zip(g.1.iter()) {
            if w.0 != o.0 {
                return Some(format!("names: sample {:?}: contig name/order differs: {:?} in, {:?} out", s.name, w.0, o.0));
            }
            if w.1 != o.1 {
                let pos = w.1.iter().zip(o.1.iter()).position(|(a, b)| a != b).unwrap_or(w.1.len().min(o.1.len()));
                return Some(format!(
                    "bases: sample {:?} contig {:?}: lengths {} in / {} out, first difference at {} (in {:?}, out {:?})",
                    s.name,
                    w.0,
                    w.1.len(),
                    o.1.len(),
                    pos,
                    w.1.get(pos),
                    o.1.get(pos)
                ));
            }
        }
    }
    None
}

pub fn sha256_file(path: &str) -> Result<String> {
    let b = std::fs::read(path)?;
    Ok(sha256_hex(&b))
}

pub fn sha256_hex(b: &[u8]) -> String {
    let mut h = Sha256::new();
    h.update(b);
    h.finalize().iter().map(|x| format!("{:02x}", x)).collect()
}

pub fn panic_message(p: &Box<dyn std::any::Any + Send>) -> String {
    p.downcast_ref::<String>()
        .cloned()
        .or_else(|| p.downcast_ref::<&str>().map(|s| s.to_string()))
        .unwrap_or_else(|| "non-string panic payload".to_string())
}
