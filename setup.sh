#!/bin/sh
# Builds everything the checks need, offline, from files on disk only.
set -e
cd "$(dirname "$0")"
exec ./check build
