#!/usr/bin/env python3
"""mutant_prompt.py <property-id> <worktree> <n> : prints the task text for a sub-agent."""
import json, sys
pid, wt, n = sys.argv[1], sys.argv[2], int(sys.argv[3])
for l in open('/verif/properties.jsonl'):
    p = json.loads(l)
    if p['id'] == pid:
        break
HINTS = {
 "C02": "Background: the archive format is written by ragc-common/src/archive.rs (container: parts = length-prefixed big-endian metadata integer + data; footer = stream directory + 8-byte little-endian length), ragc-common/src/collection.rs (sample names, delta-coded contig names, 5-stream segment descriptor table), ragc-core/src/agc_compressor.rs (streams x<base64 id>r / x<base64 id>d, packs of 50 entries separated by 0xFF, raw groups 0-15 with a 0x7f placeholder entry, part metadata 0 = stored raw), ragc-core/src/segment_compression.rs + tuple_packing.rs (marker byte, tuple packing) and ragc-core/src/lz_diff.rs (delta text). ragc's own reader is ragc-core/src/decompressor.rs. The interesting changes are those where ragc's writer AND reader are changed consistently (so ragc still round-trips its own archives and all tests pass) but the file no longer follows the stated format rule, or where only an addressing rule is bent (e.g. two reference parts, a delta stored at another pack position, metadata not equal to the unpacked size) in a way ragc's own reader tolerates.",
 "C03": "Background: ragc-common/src/collection.rs: CollectionV3 (register_sample_contig, add_segment_placed, store_batch_sample_names, store_contig_batch in batches of 50 samples, load_batch_sample_names, load_contig_batch), the contig-name delta codec (encode_split / decode_split_bytes: names are split at spaces; a field equal to the previous name's field is one marker byte, equal-length fields are run-length coded with counts up to 100) and the descriptor codec (serialize_contig_details / deserialize_contig_details with a per-group in-group-id predictor and zigzag coding against segment_size + k).",
 "C07": "Background: ragc-core/src/decompressor.rs: get_contig_range, get_contig_length, reconstruct_contig; segments overlap by k bases, may be stored reverse-complemented, and a contig's last segment may contribute zero new bases. CLI: `ragc getrange <archive> -s <sample> -c <contig> --start A --end B --format raw`, `ragc ctglen`.",
 "C09": "Background: ragc-core/src/lz_diff.rs: LZDiff::new(min_match_len), prepare(&reference), encode(&target) -> Vec<u8>, decode(&encoded). Symbols are codes 0-3 (ACGT), 4 (N), 5-15 (IUPAC), 30 (unknown letter). Literals are bytes 'A'+code, '!' means 'same as reference at the predicted position', N runs are 30 <decimal len-4> 4, matches are '<signed position delta>[,<len-min_match>].'.",
 "C10": "Background: ragc-core/src/segment.rs: split_at_splitters_with_size(contig, splitters, k, _) and split_at_splitters(contig, splitters, k) return Vec<Segment{data, front_kmer, back_kmer, front_kmer_is_dir, back_kmer_is_dir}>; ragc-core/src/kmer.rs has the canonical k-mer type.",
 "C11": "Background: ragc-core/src/splitters.rs: determine_splitters(contigs, k, segment_size) -> (splitters, singletons, duplicates), determine_splitters_streaming(path, k, segment_size), determine_splitters_streaming_first_sample(path, k, segment_size), find_actual_splitters_in_contig*; ragc-core/src/kmer_extract.rs: enumerate_kmers, remove_non_singletons.",
 "C12": "Background: ragc-core/src/tuple_packing.rs: bytes_to_tuples / tuples_to_bytes (4, 3 or 2 symbols per byte depending on the maximum symbol, marker byte = (width << 4) | (len % width)); ragc-core/src/segment_compression.rs: compress_reference_segment (repetitiveness test, tuple packing + ZSTD level 13 or plain ZSTD level 19, returns marker), compress_segment_configured, decompress_segment_with_marker; ragc-core/src/zstd_pool.rs (thread-local compression context).",
 "C13": "Background: ragc-common/src/archive.rs: Archive::new_writer/new_reader, open, register_stream, add_part, add_part_buffered, flush_buffers (flushes buffered parts in stream-id order), set_raw_size, close (writes the footer), get_part (sequential), get_part_by_id, get_num_parts, get_stream_names; ragc-common/src/varint.rs.",
 "C14": "Background: ragc-common/src/archive.rs: Archive::open -> deserialize() reads the 8-byte footer length at the end of the file, then the stream directory; ragc-core/src/decompressor.rs: Decompressor::open (params stream, collection streams). CLI: `ragc listset <archive>`, `ragc getset <archive> <sample>`. A strict prefix is e.g. `head -c N archive.agc > cut.agc`.",
 "C15": "Background: everything is written to the output file at the end: StreamingQueueCompressor::finalize() in ragc-core/src/agc_compressor.rs calls Archive::flush_buffers() and Archive::close() (ragc-common/src/archive.rs: add_part writes through a 4 MiB BufWriter, close() flushes it, serialize() writes the footer and flushes again); the CLI (ragc-cli/src/main.rs create_archive) propagates the error. A write failure can be provoked with a file-size limit: `bash -c 'trap \"\" XFSZ; ulimit -f <blocks of 1024 bytes>; exec ragc create ...'` (the write that crosses the limit is cut short, the next fails with EFBIG), or by writing to /dev/full.",
 "C16": "Background: ragc-core/src/genome_io.rs (GenomeIO::read_contig_raw / read_contig_impl: header lines start with '>', of the sequence bytes only those > 64 are kept and mapped through CNV_NUM: IUPAC letters get codes 0-15, every other letter code 30), ragc-core/src/contig_iterator.rs (MultiFileIterator: sample name from a PanSN header sample#hap#contig, else the file stem), ragc-cli/src/main.rs (create skips empty sequences), ragc-core/src/lz_diff.rs and decompressor.rs (code 30 reads back as N).",
 "C17": "Background: ragc-cli/src/main.rs: getset_command (several sample names or -p prefix, stdout or -o file), listset, listctg, create_archive (flag handling: --batch, --adaptive, --concatenated, -t, --queue-capacity, -l); errors are returned from main() and give a non-zero exit.",
 "C18": "Background: the dev/test profile has overflow-checks on, the release profile off. Interesting are arithmetic expressions on lengths, positions, priorities, masks and shifts in ragc-core/src/agc_compressor.rs, lz_diff.rs, decompressor.rs and ragc-common/src/archive.rs that wrap silently in release but would panic (\"attempt to ... with overflow\") in dev, or that behave differently (debug_assert!, cfg(debug_assertions)) between the two profiles. The existing tests run in the dev profile, so the change must not be reached by them.",
 "C19": "Background: ragc-core/src/genome_io.rs (GenomeIO::open uses MultiGzDecoder for .gz, read_contig_raw splits at '>' lines, read_contig_impl keeps bytes > 64 and maps them through CNV_NUM, header is trimmed), ragc-core/src/contig_iterator.rs (sample name from PanSN header or file stem with .fa/.fasta removed), ragc-cli/src/main.rs (single input file = PanSN mode).",
 "C20": "Background: ragc-core/src/kmer.rs: Kmer::new(k, KmerMode::Canonical), insert, reset, is_full, data (canonical), data_dir, data_rc, is_dir_oriented; canonical_kmer, reverse_complement_kmer; k-mers are stored left-aligned in a u64 (2 bits per base, k up to 32). ragc-core/src/kmer_extract.rs: enumerate_kmers.",
}
import glob, os
avoid = []
for d in sorted(glob.glob(f'/verif/seeded/{pid}-m*')):
    try:
        m = json.load(open(d + '/meta.json'))
        avoid.append('  - ' + os.path.basename(d).split('-', 2)[2].replace('-', ' ') + ' (needs: ' + m.get('needs_to_manifest', '')[:160] + ')')
    except Exception:
        pass
AVOID = ''
if avoid and os.environ.get('MUTANT_AVOID', '1') == '1':
    AVOID = 'Ideas that were already used in an earlier round - do something DIFFERENT from these (another code site, another clause, another trigger):\n' + '\n'.join(avoid) + '\n'
print(f"""You are helping to evaluate a test suite for the Rust project ekg/ragc (a Rust reimplementation of the AGC genome-collection compressor: k-mer splitter segmentation, LZ-diff encoding, a C++-compatible archive format, a multi-threaded compression pipeline). You have your own git worktree of the project at {wt} (work ONLY inside that directory; never touch /repo or /verif). The machine is offline: use `cargo ... --offline` (a Cargo.lock is already in the worktree; all dependencies are cached). The machine is busy; a `ragc create` of even a tiny input takes 2-10 seconds.

Here is a semantic property that the project is supposed to satisfy:

  Title: {p['title']}
  Statement: {p['statement']}
  Quantified over: {p['quantifier']['text']}
  Code it is anchored in: {', '.join(p['anchors']['files'])}

{HINTS.get(pid, '')}

YOUR TASK: make {n} DIFFERENT small, realistic changes to the project's source code, as {n} independent patches (the kind of bug a maintainer could plausibly introduce in a refactor, an optimisation, or an "obvious simplification") such that, for each change taken alone,
  1. the workspace still compiles (`cargo build --workspace --offline`),
  2. the EXISTING test suite still passes unchanged: `timeout 1200 cargo test --workspace --no-fail-fast --offline` (all tests pass on the unmodified tree; ~1-3 minutes; note that some tests use fixed file names under /tmp and can fail spuriously if another copy of the suite runs at the same moment - re-run once before concluding anything),
  3. the property above is BROKEN by the change, and
  4. the breakage needs something SPECIFIC to manifest - an unusual input shape, a particular parameter value or combination, a boundary being crossed, a multi-step sequence of operations, a fault at a particular point, or two cooperating code sites that each look fine alone. Do NOT produce a change that ordinary use would expose at once, and do not just delete the feature. Subtle is better than blatant. If you can, break a different clause of the property with each change.
{AVOID}
Do not modify or add tests inside the project's existing test files to make them pass, do not touch anything guarded by `cfg(ragc_verif)` (that is instrumentation, leave it exactly as it is), and do not change Cargo.toml files.

DELIVERABLES: for change number N in 1..{n}, a directory {wt}/mutant/N/ containing
  * patch.diff    - `git diff` of your source change against the worktree's HEAD (source files only; each patch must apply to a clean HEAD on its own).
  * demo/run.sh   - a bash script (plus whatever files it needs, in demo/) that exits NON-ZERO with your change applied and ZERO on the unmodified tree. It may build and run the `ragc` binary (`cargo build --release -p ragc-cli --offline` -> target/release/ragc; subcommands: create, getset, listset, listctg, getrange, ctglen, inspect; `ragc create -o out.agc -k 21 -s 100 -t 2 a.fa b.fa`; with several input files the sample name is the file stem) on small inputs generated by a python3 script with a fixed seed, or copy a small Rust integration test from demo/ into ragc-core/tests/ (or ragc-common/tests/), run it with `cargo test -p <crate> --test <name> --offline` and remove it again. Deterministic, self-contained, < 3 minutes.
  * notes.md      - which clause is broken, what exactly is needed to trigger it, why the existing tests do not notice, and the commands you ran with their results (tests passing with the change; demo failing with the change and passing without).
You MUST actually run everything: build, the full existing test suite with each change, the demo with the change (must fail), and the demo without the change (`git apply -R`; must pass). Leave the worktree clean (no change applied, no demo test file left in the crates) at the end; the patches live in mutant/N/patch.diff. If an idea gets caught by the existing tests, try another one. Finish with a short summary of what you did for each change.
""")
