#!/usr/bin/env python3
"""Prints the prompt given to a sub-agent that is asked for a property-breaking change."""
import json, sys
pid = sys.argv[1]
wt = sys.argv[2]
n = sys.argv[3] if len(sys.argv) > 3 else "1"
for l in open('/verif/properties.jsonl'):
    p = json.loads(l)
    if p['id'] == pid:
        break
print(f"""You are helping to evaluate a test suite for the Rust project ekg/ragc (a Rust reimplementation of the AGC genome-collection compressor: k-mer splitter segmentation, LZ-diff encoding, a C++-compatible archive format, a multi-threaded compression pipeline). You have your own git worktree of the project at {wt} (work ONLY inside that directory; never touch /repo or /verif). The machine is offline: use `cargo ... --offline` (a Cargo.lock is already in the worktree; all dependencies are cached).

Here is a semantic property that the project is supposed to satisfy:

  Title: {p['title']}
  Statement: {p['statement']}
  Quantified over: {p['quantifier']['text']}
  Code it is anchored in: {', '.join(p['anchors']['files'])}

YOUR TASK: make {n} small, realistic change(s) to the project's source code (the kind of bug a maintainer could plausibly introduce in a refactor, an optimisation, or an "obvious simplification") such that
  1. the workspace still compiles (`cargo build --workspace --offline`),
  2. the EXISTING test suite still passes unchanged: `cargo test --workspace --no-fail-fast --offline` (all tests pass on the unmodified tree; it takes ~1-2 minutes),
  3. the property above is BROKEN by the change, and
  4. the breakage needs something SPECIFIC to manifest - a particular thread interleaving, a crash/fault at a particular point, a multi-step sequence of operations, an unusual input shape, a particular parameter combination, or two cooperating code sites that each look fine alone. Do NOT produce a change that ordinary use would expose at once (e.g. every archive being unreadable), and do not just delete the feature. Subtle is better than blatant.
Do not modify or add tests inside the project's existing test files to make them pass, do not touch anything guarded by `cfg(ragc_verif)` (that is instrumentation, leave it as it is), and do not change Cargo.toml files.

DELIVERABLES (all inside {wt}/mutant/ - create that directory):
  * patch.diff    - `git diff` of your source change against the worktree's HEAD (source files only, not the demo).
  * demo/         - a demonstration that FAILS (non-zero exit or failing test) with your change applied and PASSES on the unmodified tree. It can be a shell script `demo/run.sh` that builds and runs the `ragc` binary on small generated inputs (the binary is built by `cargo build --release -p ragc-cli --offline`, result in target/release/ragc; subcommands: create, getset, listset, listctg, getrange, ctglen, inspect), or a small Rust integration test file plus the exact command to run it (e.g. copy it to ragc-core/tests/ at run time in run.sh). The demo must be self-contained and deterministic enough to fail reliably with the change (if it is timing dependent, loop until it fails, with a bound, and say so). Keep it fast (< 2 minutes).
  * notes.md      - which property clause is broken, what exactly is needed to trigger it, why the existing tests do not notice, and the commands you ran with their results (tests passing with the change; demo failing with the change and passing without).
You MUST actually run everything: build, the full existing test suite with your change, the demo with the change (must fail), and the demo without the change (`git stash` or `git apply -R mutant/patch.diff`; must pass). Leave the worktree with your change APPLIED at the end. If your first idea gets caught by the existing tests, try another one. Finish with a short summary of what you did.
""")
