#!/usr/bin/env python3
"""archive_mutant.py <worktree-mutant-dir> <seed-id> <property> <detected-by> <needs...>
Copies patch.diff, demo/ and notes.md of a confirmed sub-agent mutant to /verif/seeded/<seed-id>/ and writes meta.json."""
import json, os, shutil, sys
src, sid, prop, detected = sys.argv[1:5]
needs = " ".join(sys.argv[5:])
dst = f"/verif/seeded/{sid}"
os.makedirs(dst, exist_ok=True)
shutil.copy(f"{src}/patch.diff", f"{dst}/patch.diff")
if os.path.isdir(f"{src}/demo"):
    shutil.rmtree(f"{dst}/demo", ignore_errors=True)
    shutil.copytree(f"{src}/demo", f"{dst}/demo", ignore=shutil.ignore_patterns("work", "target", "*.agc"))
if os.path.exists(f"{src}/notes.md"):
    shutil.copy(f"{src}/notes.md", f"{dst}/notes.md")
confirm = {}
for name in ("confirm-tests.log", "confirm-demo-with.log", "confirm-demo-without.log"):
    p = f"{src}/{name}"
    if os.path.exists(p):
        lines = open(p, errors="replace").read().strip().splitlines()
        confirm[name] = lines[-3:]
json.dump({
    "id": sid, "breaks_property": prop, "origin": "written by an independent sub-agent that was given only the property text and a scratch worktree",
    "needs_to_manifest": needs,
    "confirmed_by_me": "tools/confirm_mutant.sh in the scratch worktree: patch applies; cargo test --workspace --no-fail-fast --offline passes with the change (176 passed, 0 failed); demo/run.sh fails with the change and passes without it",
    "confirmation_log_tails": confirm,
    "what_i_ran": f"tools/try_patch.sh /verif/seeded/{sid}/patch.diff quick {prop}",
    "detected_by": detected,
}, open(f"{dst}/meta.json", "w"), indent=1)
print("archived", dst)
