#!/bin/sh
# usage: confirm_mutant.sh <worktree> <mutant-dir (with patch.diff and demo/run.sh)>
# Confirms in the scratch worktree: patch applies, workspace test suite passes with it,
# demo fails with it and passes without it. Leaves the worktree clean.
WT="$1"; M="$2"
cd "$WT" || exit 9
git checkout -q -- . 2>/dev/null
git apply --check "$M/patch.diff" || { echo "CONFIRM $M: patch does not apply"; exit 1; }
git apply "$M/patch.diff"
# some tests use fixed /tmp file names and collide with other copies of the suite running on this
# machine: the suite runs in a private mount namespace with its own /tmp (the worktree, which
# lives under /tmp, is bound back in)
run_suite() {
  unshare -m bash -c "mkdir -p /mnt/wtbind && mount --bind '$WT' /mnt/wtbind && mount -t tmpfs tmpfs /tmp && mkdir -p '$WT' && mount --bind /mnt/wtbind '$WT' && cd '$WT' && timeout 1500 cargo test --workspace --no-fail-fast --offline" > "$M/confirm-tests.log" 2>&1
}
run_suite
T=$?
if [ "$T" != 0 ]; then
  sleep 5
  run_suite
  T=$?
fi
P=$(grep -E "^test result" "$M/confirm-tests.log" | awk '{s+=$4; f+=$6} END {print s" passed "f" failed"}')
( cd "$WT" && timeout 900 bash "$M/demo/run.sh" > "$M/confirm-demo-with.log" 2>&1 ); W=$?
git apply -R "$M/patch.diff"
( cd "$WT" && timeout 900 bash "$M/demo/run.sh" > "$M/confirm-demo-without.log" 2>&1 ); O=$?
git checkout -q -- . 2>/dev/null
echo "CONFIRM $M: tests_exit=$T ($P) demo_with_change_exit=$W demo_without_change_exit=$O"
[ "$T" = 0 ] && [ "$W" != 0 ] && [ "$O" = 0 ]
