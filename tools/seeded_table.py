#!/usr/bin/env python3
"""Prints the markdown table of /verif/seeded/* for DESIGN.md section 9."""
import json, glob, os
rows = []
for m in sorted(glob.glob('/verif/seeded/*/meta.json')):
    d = json.load(open(m))
    rows.append(d)
print("| seeded change | property | needs, to manifest | caught by |")
print("|---|---|---|---|")
for d in rows:
    det = d.get("detected_by") or d.get("what_i_ran", "")
    print(f"| `{d['id']}` | {d['breaks_property']} | {d['needs_to_manifest']} | {det} |")
