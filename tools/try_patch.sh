#!/bin/sh
# usage: try_patch.sh <patch-file|REVERT:commit> <tier> <prop> [<prop>...]
# applies a patch to /repo's working tree, runs the given checks, and always restores the tree
P="$1"; TIER="$2"; shift 2
cd /repo || exit 9
if [ -n "$(git status --porcelain --untracked-files=no)" ]; then echo "/repo not clean"; exit 9; fi
case "$P" in
  REVERT:*) git show "${P#REVERT:}" | git apply -R || { echo "cannot revert"; exit 9; } ;;
  *) git apply "$P" || { echo "cannot apply"; exit 9; } ;;
esac
cd /verif
# the evidence files describe the unchanged tree: keep them out of reach of runs on a changed one
rm -rf /verif/target/evidence.keep && cp -r /verif/evidence /verif/target/evidence.keep
for pr in "$@"; do
  ./check "$pr" "$TIER" > "/verif/target/logs/try-$pr.log" 2>&1
  rc=$?
  echo "== $P $pr exit=$rc: $(grep -c '^VIOLATION' /verif/target/logs/try-$pr.log) violation lines"
  grep -E "^  C[0-9]+:|INCONCLUSIVE" "/verif/target/logs/try-$pr.log" | head -4
done
git -C /repo checkout -- .
cp /verif/target/evidence.keep/*.json /verif/evidence/ 2>/dev/null
